#!/usr/bin/env python3
"""Runs every seeded change under /verif/seeded against the check of its own property (and of
related properties) in scratch copies of /repo (tools/seedcheck.sh), and records which checks
catch it in seeded/<id>/meta.json ("caught_by") and seeded/RESULTS.md.  Usage:
   tools/seeded_matrix.py [quick|thorough] [id-prefix]"""
import concurrent.futures as cf, json, os, re, subprocess, sys
ROOT = os.path.dirname(os.path.dirname(os.path.abspath(__file__)))
tier = sys.argv[1] if len(sys.argv) > 1 else "quick"
label = tier + ("-seed" + os.environ["VERIF_SEED"] if os.environ.get("VERIF_SEED") else "")
prefix = sys.argv[2] if len(sys.argv) > 2 else ""
RELATED = {"C01": ["C02"], "C02": [], "C03": [], "C04": ["C07"], "C05": ["C06"], "C06": ["C05"], "C07": ["C04"], "C08": ["C15"],
           "C09": ["C10"], "C10": ["C09"], "C11": ["C17"], "C12": [], "C13": [], "C14": [], "C15": ["C08"], "C16": [], "C17": ["C11"],
           "C18": [], "C19": ["C16", "C11", "C08"], "C20": []}
seeds = sorted(d for d in os.listdir(os.path.join(ROOT, "seeded")) if os.path.isdir(os.path.join(ROOT, "seeded", d)) and d.startswith(prefix))

def run(sid):
    prop = sid[:3]
    props = [prop] + RELATED.get(prop, [])
    env = dict(os.environ, SEED_SKIP_PINNED="1")
    p = subprocess.run([os.path.join(ROOT, "tools", "seedcheck.sh"), os.path.join(ROOT, "seeded", sid), ",".join(props), tier],
                       capture_output=True, text=True, env=env)
    res = {}
    for m in re.finditer(r": (C\d\d) \w+ -> exit (\d+)", p.stdout):
        res[m.group(1)] = int(m.group(2))
    return sid, res, p.stdout

rows = []
with cf.ThreadPoolExecutor(max_workers=4) as ex:
    for sid, res, out in ex.map(run, seeds):
        caught = sorted(k for k, v in res.items() if v == 1)
        print(sid, res, flush=True)
        mp = os.path.join(ROOT, "seeded", sid, "meta.json")
        meta = json.load(open(mp))
        meta.setdefault("caught_by", {})[label] = caught
        meta.setdefault("check_exit_codes", {})[label] = res
        json.dump(meta, open(mp, "w"), indent=1)
        rows.append((sid, res, caught))
with open(os.path.join(ROOT, "seeded", "RESULTS-%s.md" % label), "w") as f:
    f.write("# Seeded changes vs. checks (%s)\n\nexit 1 = the check reports a violation (caught), 0 = missed, 2 = inconclusive\n\n| seeded change | own property | results | caught by |\n|---|---|---|---|\n" % label)
    for sid, res, caught in rows:
        f.write("| %s | %s | %s | %s |\n" % (sid, sid[:3], " ".join("%s=%d" % kv for kv in sorted(res.items())), ", ".join(caught) or "**nothing**"))
missed = [sid for sid, res, caught in rows if sid[:3] not in caught]
print("own-property check missed:", missed)
