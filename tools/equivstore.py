#!/usr/bin/env python3
"""tools/equivstore.py <srcroot>  - stores property-preserving changes written by sub-agents
(<srcroot>/CXX/out/<k>/{patch.diff,notes.md,result.txt,result_all.txt}) under /verif/equivalent/<id>/
with a meta.json that records every quick check's exit code at first contact."""
import json, os, re, shutil, sys
root = sys.argv[1]
TAG = sys.argv[2] if len(sys.argv) > 2 else "eq"
dst = os.path.join(os.path.dirname(os.path.dirname(os.path.abspath(__file__))), "equivalent")
os.makedirs(dst, exist_ok=True)
for prop in sorted(os.listdir(root)):
    if not re.fullmatch(r"C\d\d", prop):
        continue
    for k in "123":
        d = os.path.join(root, prop, "out", k)
        if not os.path.exists(os.path.join(d, "patch.diff")):
            continue
        notes = open(os.path.join(d, "notes.md")).read() if os.path.exists(os.path.join(d, "notes.md")) else ""
        title = notes.splitlines()[0].lstrip("# ").strip() if notes else ""
        slug = re.sub(r"[^a-z0-9]+", "-", re.sub(r"^[^—–-]*[—–-]\s*", "", title).lower()).strip("-")[:48].strip("-")
        sid = "%s-%s-%s-%s" % (prop, TAG, k, slug)
        out = os.path.join(dst, sid)
        os.makedirs(out, exist_ok=True)
        shutil.copy(os.path.join(d, "patch.diff"), out)
        if notes:
            shutil.copy(os.path.join(d, "notes.md"), out)
        res = {}
        for fn, key in (("result.txt", "first_contact_own_and_neighbours"), ("result_all.txt", "all_quick_checks")):
            p = os.path.join(d, fn)
            if os.path.exists(p):
                res[key] = {m.group(1): int(m.group(2)) for m in re.finditer(r": (C\d\d) quick -> exit (\d+)", open(p).read())}
        json.dump({"id": sid, "property_preserved": prop, "change": title,
                   "origin": "written by an independent sub-agent that saw only the property text and a scratch worktree; asked for changes under which the property still holds",
                   "quick_check_exit_codes": res}, open(os.path.join(out, "meta.json"), "w"), indent=1)
        print(sid)
