#!/usr/bin/env python3
"""Rebuilds seeded/RESULTS-<label>.md from the exit codes recorded in every seeded/<id>/meta.json
(tools/seeded_matrix.py with an id prefix only rewrites the rows it ran).  Usage: tools/seeded_results.py [label]"""
import json, os, sys
ROOT = os.path.dirname(os.path.dirname(os.path.abspath(__file__)))
label = sys.argv[1] if len(sys.argv) > 1 else "quick"
rows, missed = [], []
for sid in sorted(os.listdir(os.path.join(ROOT, "seeded"))):
    mp = os.path.join(ROOT, "seeded", sid, "meta.json")
    if not os.path.exists(mp):
        continue
    m = json.load(open(mp))
    res = m.get("check_exit_codes", {}).get(label)
    if res is None:
        continue
    caught = sorted(k for k, v in res.items() if v == 1)
    rows.append((sid, res, caught, m.get("disposition", "")))
    if sid[:3] not in caught:
        missed.append(sid)
with open(os.path.join(ROOT, "seeded", "RESULTS-%s.md" % label), "w") as f:
    f.write("# Seeded changes vs. checks (%s)\n\nexit 1 = the check reports a violation (caught), 0 = missed, 2 = inconclusive; %d changes, %d caught by the quick check of their own property\n\n| seeded change | own property | results | caught by | disposition |\n|---|---|---|---|---|\n" % (label, len(rows), len(rows) - len(missed)))
    for sid, res, caught, disp in rows:
        f.write("| %s | %s | %s | %s | %s |\n" % (sid, sid[:3], " ".join("%s=%d" % kv for kv in sorted(res.items())), ", ".join(caught) or "**nothing**", disp.replace("|", "/")[:200]))
print(len(rows), "rows; own-property check missed:", missed)
