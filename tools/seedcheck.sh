#!/bin/sh
# usage: tools/seedcheck.sh <dir with patch.diff> <PROP[,PROP...]> [tier]
# Copies /repo to a scratch dir, applies the seeded change, confirms it compiles and keeps the
# pinned suites green, runs the named checks against it (VERIF_REPO) and removes the scratch copy.
set -u
export GOFLAGS=-mod=mod GOPROXY=off GOSUMDB=off GOTOOLCHAIN=local
src=$1; props=$2; tier=${3:-quick}
name=$(echo "$src" | tr '/' '_')
d=/tmp/mut/seed$name
rm -rf "$d"; mkdir -p /tmp/mut; rsync -a --exclude .git --exclude out /repo/ "$d/"
(cd "$d" && patch -p1 -s < "$src/patch.diff") || { echo "SEED $src: patch does not apply"; rm -rf "$d"; exit 3; }
(cd "$d" && go build ./... && cd filters/encrypt && go build ./...) || { echo "SEED $src: does not compile"; rm -rf "$d"; exit 3; }
if [ -z "${SEED_SKIP_PINNED:-}" ]; then
  if (cd "$d" && go test -vet=off -count=1 ./... >/tmp/mut/pinned$name.log 2>&1 && cd filters/encrypt && go test -vet=off -count=1 ./... >>/tmp/mut/pinned$name.log 2>&1); then echo "SEED $src: pinned suites PASS"; else echo "SEED $src: pinned suites FAIL"; grep -h "^--- FAIL\|^FAIL" /tmp/mut/pinned$name.log | head -5; fi
fi
for p in $(echo "$props" | tr ',' ' '); do
  out=$(VERIF_REPO="$d" /verif/check "$p" "$tier" 2>&1); rc=$?
  echo "SEED $src: $p $tier -> exit $rc $(echo "$out" | grep -m1 '^VIOLATION\|^INCONCLUSIVE' | cut -c1-200)"
done
tag=$(python3 -c "import hashlib,sys;print(hashlib.sha1(sys.argv[1].encode()).hexdigest()[:8])" "$d")
if [ -z "${SEED_KEEP:-}" ]; then rm -rf /verif/.work/*-$tag /verif/.bin/*$tag*; fi
rm -rf "$d" /tmp/mut/pinned$name.log
