#!/usr/bin/env python3
"""Regenerates /verif/MANIFEST.json from checks.json (which properties have a check) and the
texts below.  Properties without a check are listed under not_applicable with the reason."""
import json, os, subprocess
ROOT = os.path.dirname(os.path.dirname(os.path.abspath(__file__)))
cfg = json.load(open(os.path.join(ROOT, "checks.json")))
props = [json.loads(l) for l in open(os.path.join(ROOT, "properties.jsonl"))]
T = json.load(open(os.path.join(ROOT, "tools", "manifest_texts.json")))
hooks_commits = T.get("_hook_commits", [])
checks = []
na = []
for p in props:
    pid = p["id"]
    if pid in cfg and pid in T:
        t = T[pid]
        checks.append({
            "property_id": pid,
            "quick_cmd": "./check %s quick" % pid,
            "thorough_cmd": "./check %s thorough" % pid,
            "evidence_file": "/verif/evidence/%s.json" % pid,
            "replay_cmd_template": "./check %s --replay {path}" % pid,
            "engine": "go-rapid-harness",
            "level_claimed": {"category": "exploration", "text": t["level"], "design_ref": t["design_ref"]},
            "level_note": t["note"],
            "technique": t["technique"],
        })
    else:
        na.append({"property_id": pid, "reason": T.get("_na", {}).get(pid, "check not built yet (build phase in progress); nothing is claimed for this property until its generated-input check exists")})
m = {
    "version": 1,
    "setup_cmd": "./check --setup",
    "hooks": {
        "guard": "verif",
        "enable": "go build tag: the harness module (replace => /repo) is compiled with `go test -c -tags verif`",
        "baseline_off_cmd": "cd /repo && go test -vet=off -count=1 ./... && cd /repo/filters/encrypt && go test -vet=off -count=1 ./...",
        "source_commits": hooks_commits,
        "add_only": True,
    },
    "engines": [{"name": "go-rapid-harness", "path": "/verif/harness", "serves_properties": [c["property_id"] for c in checks],
                 "kind_free_text": "Go test binaries (pgregory.net/rapid v1.3.0 generators + bounded exhaustive enumerators + Go race detector), sharded and classified by the python3 driver ./check"}],
    "checks": checks,
    "not_applicable": na,
    "notes": "Technique family: property-based testing and fuzzing. See DESIGN.md. Known findings: KNOWN_FINDINGS.txt.",
}
json.dump(m, open(os.path.join(ROOT, "MANIFEST.json"), "w"), indent=1)
print("claimed:", [c["property_id"] for c in checks])
