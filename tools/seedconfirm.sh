#!/bin/sh
# usage: tools/seedconfirm.sh <src dir with patch.diff + demo_test.go> <seed id> <pkg dir rel. to repo> <test regex> <property> <needs...> [-- extra go test flags]
# Confirms, in a scratch copy of /repo: pinned suites pass with the change; the demonstration passes
# without the change and fails with it.  On success stores the seed under /verif/seeded/<seed id>/.
set -u
export GOFLAGS=-mod=mod GOPROXY=off GOSUMDB=off GOTOOLCHAIN=local
src=$1; id=$2; pkg=$3; re=$4; prop=$5; needs=$6; shift 6
[ "${1:-}" = "--" ] && shift; extra="$*"
d=/tmp/mut/confirm-$id
rm -rf "$d"; mkdir -p /tmp/mut; rsync -a --exclude .git --exclude out /repo/ "$d/"
demo=$(ls "$src"/*_test.go "$src"/*.go 2>/dev/null | head -1)
moddir="$d"; case "$pkg" in filters/encrypt*) moddir="$d/filters/encrypt";; esac
cp "$demo" "$d/$pkg/zz_seed_demo_test.go"
(cd "$d/$pkg" && go test -vet=off -count=1 -run "$re" $extra . > /tmp/mut/confirm-$id.without.log 2>&1); without=$?
rm "$d/$pkg/zz_seed_demo_test.go"
(cd "$d" && patch -p1 -s < "$src/patch.diff") || { echo "CONFIRM $id: patch does not apply"; exit 3; }
(cd "$d" && go test -vet=off -count=1 ./... > /tmp/mut/confirm-$id.pinned.log 2>&1 && cd filters/encrypt && go test -vet=off -count=1 ./... >> /tmp/mut/confirm-$id.pinned.log 2>&1); pinned=$?
cp "$demo" "$d/$pkg/zz_seed_demo_test.go"
(cd "$d/$pkg" && go test -vet=off -count=1 -run "$re" $extra . > /tmp/mut/confirm-$id.with.log 2>&1); with=$?
echo "CONFIRM $id: pinned-with-change=$pinned (0=pass) demo-without=$without (0=pass) demo-with=$with (non-0=fails)"
if [ $pinned -eq 0 ] && [ $without -eq 0 ] && [ $with -ne 0 ]; then
  out=/verif/seeded/$id; mkdir -p "$out"
  cp "$src/patch.diff" "$out/patch.diff"; cp "$demo" "$out/$(basename $demo)"; [ -f "$src/notes.md" ] && cp "$src/notes.md" "$out/notes.md"
  python3 - "$out" "$id" "$prop" "$needs" "$pkg" "$re" "$extra" <<'PY'
import json,sys
out,id,prop,needs,pkg,re,extra=sys.argv[1:8]
json.dump({"id":id,"property":prop,"needs_to_manifest":needs,
 "demonstration":{"copy_to":pkg+"/zz_seed_demo_test.go","run":"go test -vet=off -count=1 -run '%s' %s ."%(re,extra)},
 "confirmed":{"pinned_suites_with_change":"pass","demonstration_without_change":"pass","demonstration_with_change":"fail",
   "how":"tools/seedconfirm.sh in a scratch copy of /repo under /tmp/mut (removed afterwards)"},
 "origin":"written by an independent sub-agent that saw only the property text and a scratch worktree"},open(out+"/meta.json","w"),indent=1)
PY
  echo "CONFIRM $id: stored in $out"
else
  tail -5 /tmp/mut/confirm-$id.with.log
fi
rm -rf "$d" /tmp/mut/confirm-$id.*.log
