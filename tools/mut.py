#!/usr/bin/env python3
"""tools/mut.py NAME FILE 'OLD' 'NEW' PROP[,PROP...] [tier]
   tools/mut.py NAME @edits.json - - PROP[,PROP...] [tier]   (edits.json: [{"file","old","new"},...])
Copy /repo (without .git) to /tmp/mut/NAME, replace OLD by NEW (exactly one occurrence) in FILE,
make sure it compiles, run the named checks against the copy (VERIF_REPO), print their exit codes,
and delete the copy.  Used for the sensitivity runs recorded in DESIGN.md §7; not used by any check.
With MUT_PINNED=1 also run the pinned test suite of the touched module on the mutant."""
import os, shutil, subprocess, sys
name, f, old, new, props = sys.argv[1:6]
tier = sys.argv[6] if len(sys.argv) > 6 else "quick"
d = "/tmp/mut/" + name
shutil.rmtree(d, ignore_errors=True)
os.makedirs("/tmp/mut", exist_ok=True)
subprocess.check_call(["rsync", "-a", "--exclude", ".git", "/repo/", d + "/"])
edits = [{"file": f, "old": old, "new": new}]
if f.startswith("@"):
    import json
    edits = json.load(open(f[1:]))
    f = edits[0]["file"]
for e in edits:
    p = os.path.join(d, e["file"])
    s = open(p).read()
    if s.count(e["old"]) != 1:
        print("MUT %s: pattern occurs %d times in %s" % (name, s.count(e["old"]), e["file"])); shutil.rmtree(d); sys.exit(3)
    open(p, "w").write(s.replace(e["old"], e["new"]))
env = dict(os.environ, GOFLAGS="-mod=mod", GOPROXY="off", GOSUMDB="off", GOTOOLCHAIN="local")
moddir = d + "/filters/encrypt" if f.startswith("filters/encrypt") else d
r = subprocess.run(["go", "build", "./..."], cwd=moddir, env=env, capture_output=True, text=True)
if r.returncode != 0:
    print("MUT %s: does not compile\n%s" % (name, r.stderr[-2000:])); shutil.rmtree(d); sys.exit(3)
if os.environ.get("MUT_PINNED"):
    r = subprocess.run(["go", "test", "-vet=off", "-count=1", "./..."], cwd=moddir, env=env, capture_output=True, text=True)
    print("MUT %s: pinned suite %s" % (name, "PASS" if r.returncode == 0 else "FAIL (mutant not admissible)"))
    if r.returncode != 0:
        print("   " + " | ".join([l for l in r.stdout.splitlines() if l.startswith("--- FAIL")][:3]))
env["VERIF_REPO"] = d
for pid in props.split(","):
    r = subprocess.run(["/verif/check", pid, tier], env=env, capture_output=True, text=True)
    lines = [l for l in r.stdout.splitlines() if l.startswith(("VIOLATION", "INCONCLUSIVE"))]
    print("MUT %s: %s %s -> exit %d %s" % (name, pid, tier, r.returncode, ("| " + lines[0][:230]) if lines else ""))
shutil.rmtree(d, ignore_errors=True)
tag = __import__("hashlib").sha1(d.encode()).hexdigest()[:8]
if not os.environ.get("MUT_KEEP"):
    for fn in os.listdir("/verif/.work"):
        if fn.endswith("-" + tag):
            shutil.rmtree("/verif/.work/" + fn, ignore_errors=True)
shutil.rmtree("/verif/.work/mod-" + __import__("hashlib").sha1(d.encode()).hexdigest()[:8], ignore_errors=True)
for fn in os.listdir("/verif/.bin"):
    if __import__("hashlib").sha1(d.encode()).hexdigest()[:8] in fn:
        os.remove("/verif/.bin/" + fn)
