#!/usr/bin/env python3
"""Runs every property-preserving change under /verif/equivalent against the quick check of the property it
preserves and of its neighbours (scratch copies of /repo, tools/seedcheck.sh) and records the exit codes in
equivalent/<id>/meta.json under the given label and in equivalent/RESULTS.md.  Usage: tools/equiv_matrix.py <label> [all]"""
import concurrent.futures as cf, json, os, re, subprocess, sys
ROOT = os.path.dirname(os.path.dirname(os.path.abspath(__file__)))
label = sys.argv[1] if len(sys.argv) > 1 else "rerun"
ALL = len(sys.argv) > 2 and sys.argv[2] == "all"
REL = {"C01": "C01,C02,C03,C04", "C02": "C02,C01,C03,C04", "C03": "C03,C01,C02,C04", "C04": "C04,C01,C07,C02", "C05": "C05,C06,C07,C04",
       "C06": "C06,C05,C12,C04", "C07": "C07,C04,C05", "C08": "C08,C13", "C09": "C09,C10,C16", "C10": "C10,C09,C16,C19",
       "C11": "C11,C17,C12", "C12": "C12,C04,C11", "C13": "C13,C08,C19", "C14": "C14,C19,C18", "C15": "C15,C13", "C16": "C16,C09,C19",
       "C17": "C17,C11,C12", "C18": "C18,C19", "C19": "C19,C16,C11,C14", "C20": "C20,C04,C12"}
ids = sorted(d for d in os.listdir(os.path.join(ROOT, "equivalent")) if os.path.isdir(os.path.join(ROOT, "equivalent", d)))

def run(sid):
    props = ",".join("C%02d" % i for i in range(1, 21)) if ALL else REL[sid[:3]]
    p = subprocess.run([os.path.join(ROOT, "tools", "seedcheck.sh"), os.path.join(ROOT, "equivalent", sid), props, "quick"],
                       capture_output=True, text=True, env=dict(os.environ, SEED_SKIP_PINNED="1"))
    return sid, {m.group(1): int(m.group(2)) for m in re.finditer(r": (C\d\d) \w+ -> exit (\d+)", p.stdout)}

rows = []
with cf.ThreadPoolExecutor(max_workers=4) as ex:
    for sid, res in ex.map(run, ids):
        print(sid, {k: v for k, v in res.items() if v != 0} or "all silent", flush=True)
        mp = os.path.join(ROOT, "equivalent", sid, "meta.json")
        meta = json.load(open(mp))
        meta.setdefault("quick_check_exit_codes", {})[label] = res
        json.dump(meta, open(mp, "w"), indent=1)
        rows.append((sid, res, meta.get("disposition", "")))
with open(os.path.join(ROOT, "equivalent", "RESULTS.md"), "w") as f:
    f.write("# Property-preserving changes vs. quick checks (%s)\n\nexit 0 = silent, 1 = alarm, 2 = inconclusive\n\n| change | preserved property | checks run | alarms | note |\n|---|---|---|---|---|\n" % label)
    for sid, res, disp in rows:
        f.write("| %s | %s | %s | %s | %s |\n" % (sid, sid[:3], " ".join(sorted(res)), ", ".join(k for k, v in sorted(res.items()) if v == 1) or "-", disp[:160]))
print("alarms:", [(sid, [k for k, v in res.items() if v]) for sid, res, _ in rows if any(res.values())])
