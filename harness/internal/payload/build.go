package payload

import (
	"fmt"
	"reflect"
	"strings"

	"google.golang.org/protobuf/types/known/structpb"
	"google.golang.org/protobuf/types/known/wrapperspb"
)

// Exp is what must have happened to a leaf.
type Exp int

const (
	Untouched    Exp = iota // must equal the original
	Redact                  // "[REDACTED]"
	Encrypt                 // "encrypted:..."
	Hmac                    // "hmac-sha256:..."
	AnyProtected            // any of the three protected forms
	Permitted               // plaintext permitted (operation overridden to none) - or any protected form
)

func (e Exp) String() string {
	return [...]string{"untouched", "redact", "encrypt", "hmac-sha256", "any-protected", "plaintext-permitted"}[e]
}

// Leaf is one protectable leaf value of a built payload.
type Leaf struct {
	Path     string
	Canary   string // "" for an empty leaf
	Exp      Exp
	Ctx      string // "field", "untagged-map", "taggable-map", "top-level"
	Tag      string
	Direct   bool   // reachable from the root through by-value struct fields only (unsettable when the payload is passed by value)
	Under    string // container kinds on the way, e.g. "ptr>map>slice"
	ViaMapSV bool   // passes through a struct stored by value in a map
	ViaIfSl  bool   // passes through a []interface{} element
}

// Cfg is the filter configuration that matters for expectations.
type Cfg struct {
	Overrides map[string]string // "public"/"sensitive"/"secret" -> "", "redact", "encrypt", "hmac-sha256"
}

func opExp(op string) Exp {
	switch strings.ToLower(op) {
	case "redact":
		return Redact
	case "encrypt":
		return Encrypt
	case "hmac-sha256":
		return Hmac
	}
	return AnyProtected
}

// AllNone reports whether the configuration filters nothing at all.
func (c Cfg) AllNone() bool {
	s, okS := c.Overrides["sensitive"]
	x, okX := c.Overrides["secret"]
	p := c.Overrides["public"]
	return okS && okX && s == "" && x == "" && p == ""
}

// Resolve is the independent tag -> operation resolver (specification, shares no code with tag.go).
func (c Cfg) Resolve(tag string, hasTag bool) Exp {
	if !hasTag {
		return Redact // no classification: redact
	}
	segs := strings.Split(tag, ",")
	cls := segs[0]
	switch cls {
	case "public":
		if o, ok := c.Overrides["public"]; ok && o != "" {
			return Permitted // an override on public data: either reading is accepted
		}
		return Untouched
	case "sensitive", "secret":
	default:
		return AnyProtected // unknown / mixed-case / empty classification: must be protected somehow
	}
	if o, ok := c.Overrides[cls]; ok {
		if o == "" {
			return Permitted
		}
		return opExp(o)
	}
	op := ""
	if len(segs) > 1 {
		op = segs[1]
	}
	switch strings.ToLower(op) {
	case "redact", "encrypt", "hmac-sha256":
		return opExp(op)
	case "":
		if cls == "sensitive" {
			return Encrypt
		}
		return Redact
	}
	return AnyProtected // unknown operation word / stray spaces: protected somehow
}

func (c Cfg) unclassified() Exp { return AnyProtected }

// secretTop is what a bare top-level string / slice payload is treated as.
func (c Cfg) secretTop() Exp { return c.Resolve("secret", true) }

type builder struct {
	cfg     Cfg
	can     canaries
	leaves  []Leaf
	ignored map[reflect.Type]bool
}

// collectIgnored gathers the pointer types listed in IgnoreTypes.
func collectIgnored(s *Shape, out map[reflect.Type]bool) {
	if s == nil {
		return
	}
	if s.K == KPStruct && s.Ign {
		out[typeOf(s)] = true
	}
	if s.K == KIface && s.Ign {
		out[reflect.PointerTo(structType(s))] = true
	}
	for _, k := range s.Kids {
		collectIgnored(k, out)
	}
}

type bctx struct {
	path     string
	mode     string // field | untagged-map | taggable-map | top-level
	tag      string
	hasTag   bool
	direct   bool
	under    string
	viaMapSV bool
	viaIfSl  bool
	exp      *Exp // fixed expectation (taggable key)
	ign      bool // below a value whose type is in IgnoreTypes: nothing is filtered
	typed    bool // this value sits in a statically typed slot the filter checks against IgnoreTypes
}

func (b *builder) expFor(c bctx) Exp {
	if c.ign {
		return Untouched
	}
	if c.exp != nil {
		return *c.exp
	}
	switch c.mode {
	case "field":
		return b.cfg.Resolve(c.tag, c.hasTag)
	case "top-level":
		return b.cfg.secretTop()
	}
	return b.cfg.unclassified()
}

func (b *builder) leaf(c bctx, empty bool) string {
	can := ""
	if !empty {
		can = b.can.next()
	}
	b.leaves = append(b.leaves, Leaf{Path: c.path, Canary: can, Exp: b.expFor(c), Ctx: c.mode, Tag: c.tag, Direct: c.direct, Under: c.under, ViaMapSV: c.viaMapSV, ViaIfSl: c.viaIfSl})
	return can
}

func (b *builder) bytesVal(can string) []byte {
	if can == "" {
		return []byte{}
	}
	if b.can.n%3 == 0 {
		return append([]byte{0xff, 0x00, 0xfe}, can...)
	}
	return []byte(can)
}

func sub(c bctx, step, under string) bctx {
	c.path += step
	if under != "" {
		if c.under != "" {
			c.under += ">"
		}
		c.under += under
	}
	return c
}

// build creates the value for shape s (of type typeOf(s)).
func (b *builder) build(s *Shape, c bctx) reflect.Value {
	t := typeOf(s)
	v := reflect.New(t).Elem()
	if s.Nil {
		return v
	}
	switch s.K {
	case KString:
		v.SetString(b.leaf(c, s.Empty))
	case KStrPtr:
		str := b.leaf(sub(c, "", "ptr"), s.Empty)
		v.Set(reflect.ValueOf(&str))
	case KBytes:
		v.SetBytes(b.bytesVal(b.leaf(c, s.Empty)))
	case KStrs:
		sl := reflect.MakeSlice(t, s.N, s.N)
		for i := 0; i < s.N; i++ {
			sl.Index(i).SetString(b.leaf(sub(c, fmt.Sprintf("[%d]", i), "slice"), false))
		}
		v.Set(sl)
	case KBytess:
		sl := reflect.MakeSlice(t, s.N, s.N)
		for i := 0; i < s.N; i++ {
			sl.Index(i).SetBytes(b.bytesVal(b.leaf(sub(c, fmt.Sprintf("[%d]", i), "slice"), false)))
		}
		v.Set(sl)
	case KWStr:
		v.Set(reflect.ValueOf(&wrapperspb.StringValue{Value: b.leaf(sub(c, ".Value", "ptr"), false)}))
	case KWBytes:
		v.Set(reflect.ValueOf(&wrapperspb.BytesValue{Value: b.bytesVal(b.leaf(sub(c, ".Value", "ptr"), false))}))
	case KInt:
		v.SetInt(int64(len(c.path)) + 41)
	case KBool:
		v.SetBool(true)
	case KTime:
		v.Set(reflect.ValueOf(baseTime))
	case KStruct:
		b.fill(s, v, c)
	case KPBStruct:
		fields := map[string]*structpb.Value{}
		for _, k := range s.Keys {
			cc := sub(c, ".Fields["+k+"].Kind.StringValue", "ptr>pbstruct")
			cc.direct = false
			cc.mode, cc.tag, cc.hasTag, cc.exp = "untagged-map", "", false, nil
			fields[k] = structpb.NewStringValue(b.leaf(cc, false))
		}
		v.Set(reflect.ValueOf(&structpb.Struct{Fields: fields}))
	case KPStruct:
		p := reflect.New(t.Elem())
		cc := sub(c, "", "ptr")
		cc.direct = false
		if b.ignored[t] && c.typed {
			cc.ign = true
		}
		cc.typed = false
		b.fill(s, p.Elem(), cc)
		v.Set(p)
	case KIface:
		p := reflect.New(structType(s))
		cc := sub(c, "", "iface>ptr")
		cc.direct = false
		cc.typed = false
		b.fill(s, p.Elem(), cc)
		v.Set(p)
	case KStructs, KPStrcts:
		sl := reflect.MakeSlice(t, s.N, s.N)
		for i := 0; i < s.N; i++ {
			cc := sub(c, fmt.Sprintf("[%d]", i), "slice")
			cc.direct = false
			if s.K == KStructs {
				b.fill(s.Kids[0], sl.Index(i), cc)
			} else {
				p := reflect.New(t.Elem().Elem())
				pc := sub(cc, "", "ptr")
				if b.ignored[t.Elem()] && c.typed {
					pc.ign = true
				}
				pc.typed = false
				b.fill(s.Kids[0], p.Elem(), pc)
				sl.Index(i).Set(p)
			}
		}
		v.Set(sl)
	case KIfaces, "[]map":
		sl := reflect.MakeSlice(t, len(s.Kids), len(s.Kids))
		for i, k := range s.Kids {
			cc := sub(c, fmt.Sprintf("[%d]", i), "slice")
			cc.direct = false
			if s.K == KIfaces {
				cc.viaIfSl = true
			}
			cc.typed = false
			// elements start a fresh context: a *struct honours its own tags, a map is untagged
			cc.mode, cc.tag, cc.hasTag, cc.exp = "untagged-map", "", false, nil
			sl.Index(i).Set(b.build(k, cc))
		}
		v.Set(sl)
	case KMap:
		m := reflect.MakeMapWithSize(t, len(s.Kids))
		for i, k := range s.Kids {
			cc := sub(c, "["+s.Keys[i]+"]", "map")
			cc.direct = false
			cc.typed = false
			cc.mode, cc.tag, cc.hasTag, cc.exp = "untagged-map", "", false, nil
			if k.K == KStruct {
				cc.viaMapSV = true
			}
			m.SetMapIndex(reflect.ValueOf(s.Keys[i]), b.build(k, cc))
		}
		v.Set(m)
	case KTStruct:
		ts := &TStructT{Count: 3}
		base := sub(c, "", "ptr")
		base.direct, base.typed = false, false
		fc := func(name, tag string) bctx {
			x := sub(base, "."+name, "")
			x.mode, x.tag, x.hasTag, x.exp = "field", tag, true, nil
			return x
		}
		ts.Pub = b.leaf(fc("Pub", "public"), false)
		ts.Sec = b.leaf(fc("Sec", "secret"), false)
		ts.Sens = b.bytesVal(b.leaf(fc("Sens", "sensitive,hmac-sha256"), false))
		ac := sub(base, ".Attrs", "")
		ts.Attrs = map[string]interface{}(b.build(s.Kids[0], ac).Interface().(TMapT))
		pc := sub(base, ".Plain", "")
		pc.mode, pc.tag, pc.hasTag, pc.exp = "untagged-map", "", false, nil
		ts.Plain = b.build(s.Kids[1], pc).Interface().(map[string]string)
		v.Set(reflect.ValueOf(ts))
	case KPTMap:
		inner := b.build(s.Kids[0], sub(c, "", "ptr"))
		p := reflect.New(tTMap)
		p.Elem().Set(inner)
		v.Set(p)
	case KTMaps, KPTMaps:
		sl := reflect.MakeSlice(t, len(s.Kids), len(s.Kids))
		for i, k := range s.Kids {
			cc := sub(c, fmt.Sprintf("[%d]", i), "slice")
			cc.direct = false
			cc.typed = false
			cc.mode, cc.tag, cc.hasTag, cc.exp = "untagged-map", "", false, nil
			if s.K == KTMaps {
				sl.Index(i).Set(b.build(k, cc))
			} else {
				p := reflect.New(tTMap)
				p.Elem().Set(b.build(k, sub(cc, "", "ptr")))
				sl.Index(i).Set(p)
			}
		}
		v.Set(sl)
	case KTMap, KNTMap:
		m := reflect.MakeMapWithSize(t, len(s.Kids))
		for i, k := range s.Kids {
			cc := sub(c, "["+s.Keys[i]+"]", "tmap")
			cc.direct = false
			cc.typed = false
			cc.mode, cc.tag, cc.hasTag, cc.exp = "untagged-map", "", false, nil
			if parts := strings.Split(s.Keys[i], "|"); len(parts) == 3 {
				e := b.cfg.Resolve(parts[1]+","+parts[2], true)
				cc.mode, cc.tag, cc.exp = "taggable-map", parts[1]+","+parts[2], &e
			}
			m.SetMapIndex(reflect.ValueOf(s.Keys[i]), b.build(k, cc))
		}
		v.Set(m)
	default:
		panic("payload: cannot build " + s.K)
	}
	return v
}

// fill sets the fields of struct value v (type structType(s)).
func (b *builder) fill(s *Shape, v reflect.Value, c bctx) {
	for i, k := range s.Kids {
		cc := sub(c, fmt.Sprintf(".F%d", i), "")
		cc.mode, cc.tag, cc.hasTag, cc.exp = "field", k.Tag, k.HasT, nil
		if !k.isLeaf() {
			// tags on containers have no effect; leaves below get their own context
			cc.tag, cc.hasTag = "", false
		}
		cc.typed = true
		if k.K != KStruct {
			// anything but a by-value struct field resets "direct" below itself, except plain leaves
			if !(k.K == KString || k.K == KBytes) {
				cc.direct = false
			}
		}
		v.Field(i).Set(b.build(k, cc))
	}
}

// Built is a payload value plus what is known about its leaves.
type Built struct {
	Value       interface{}
	Leaves      []Leaf
	IgnoreTypes []reflect.Type
	MustFail    string // non-empty: Process has to return an error for this payload (reason)
}

// hasBadPointer: a Taggable with a bad tag pointer that Process actually reaches (nothing nil or ignored above it).
func hasBadPointer(s *Shape) bool {
	if s == nil || s.Nil || s.Ign || ((s.K == KStructs || s.K == KPStrcts) && s.N == 0) {
		return false
	}
	if s.BadPointer {
		return true
	}
	for _, k := range s.Kids {
		if hasBadPointer(k) {
			return true
		}
	}
	return false
}

// Build materialises the payload. Calling it twice gives non-aliased twins.
func Build(p Payload, cfg Cfg) Built {
	b := &builder{cfg: cfg, can: canaries{seed: p.Seed}, ignored: map[reflect.Type]bool{}}
	collectIgnored(p.Root, b.ignored)
	root := bctx{path: "", mode: "top-level", direct: false}
	var val interface{}
	switch p.Top {
	case TNil:
		val = nil
	case TTypedNil:
		val = reflect.Zero(reflect.PointerTo(structType(p.Root))).Interface()
	case TZero:
		val = reflect.Zero(structType(p.Root)).Interface()
	case TPStruct:
		ptr := reflect.New(structType(p.Root))
		pc := sub(root, "", "ptr")
		if b.ignored[ptr.Type()] {
			// reflect.StructOf gives structurally equal shapes the same type: the payload's own type can
			// coincide with a type listed in IgnoreTypes, and such a payload is passed through untouched
			pc.ign = true
		}
		b.fill(p.Root, ptr.Elem(), pc)
		val = ptr.Interface()
	case TTMaps, TPTMaps, TTStruct:
		val = b.build(p.Root, root).Interface()
	case TStruct:
		c := root
		c.direct = true
		v := reflect.New(structType(p.Root)).Elem()
		b.fill(p.Root, v, c)
		val = v.Interface()
	case TStructs, TPStructs, TStrs, TBytess, TMaps, TIfaces:
		rc := root
		rc.typed = true // elements of a top-level []*T are checked against IgnoreTypes
		val = b.build(p.Root, rc).Interface()
	case TPStrs:
		v := b.build(p.Root, sub(root, "", "ptr"))
		ptr := reflect.New(v.Type())
		ptr.Elem().Set(v)
		val = ptr.Interface()
	case TPString, TPBytes:
		v := b.build(p.Root, sub(root, "", "ptr"))
		ptr := reflect.New(v.Type())
		ptr.Elem().Set(v)
		val = ptr.Interface()
	case TString, TBytes:
		c := root
		c.direct = true
		val = b.build(p.Root, c).Interface()
	case TTMap, TMap:
		val = b.build(p.Root, root).Interface()
	case TPTMap, TPMap:
		v := b.build(p.Root, sub(root, "", "ptr"))
		ptr := reflect.New(v.Type())
		ptr.Elem().Set(v)
		val = ptr.Interface()
	default:
		panic("payload: top " + p.Top)
	}
	var its []reflect.Type
	for t := range b.ignored {
		its = append(its, t)
	}
	out := Built{Value: val, Leaves: b.leaves, IgnoreTypes: its}
	if p.Top != TNil && p.Top != TTypedNil && p.Top != TZero && p.Top != TStruct && hasBadPointer(p.Root) {
		out.MustFail = "a Taggable's tag points at a list element that does not exist (bad tag pointer)"
	}
	return out
}
