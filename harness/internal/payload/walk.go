package payload

import (
	"bytes"
	"fmt"
	"github.com/hashicorp/eventlogger/filters/encrypt"
	"reflect"
	"sort"
	"strings"
	"time"
)

// Atom is one scalar found by the generic walker.
type Atom struct {
	Kind string // "string", "bytes", "scalar", "len", "type", "nil"
	S    string
}

// Atoms walks any Go value (through pointers, interfaces, slices, arrays, maps
// and exported struct fields) and returns path -> atom.  Paths use ".Name" for
// fields, "[i]" for elements and "[key]" for map entries; pointers and
// interfaces add no step (their dynamic type is recorded under path+"#type").
func Atoms(v interface{}) map[string]Atom {
	out := map[string]Atom{}
	walkValue(reflect.ValueOf(v), "", out, 0)
	return out
}

var tTimeT = reflect.TypeOf(time.Time{})

func walkValue(v reflect.Value, path string, out map[string]Atom, depth int) {
	if depth > 2000 {
		return
	}
	if !v.IsValid() {
		out[path+"#nil"] = Atom{"nil", "invalid"}
		return
	}
	switch v.Kind() {
	case reflect.Interface:
		if v.IsNil() {
			out[path+"#nil"] = Atom{"nil", "interface"}
			return
		}
		out[path+"#type"] = Atom{"type", v.Elem().Type().String()}
		walkValue(v.Elem(), path, out, depth+1)
	case reflect.Ptr:
		if v.IsNil() {
			out[path+"#nil"] = Atom{"nil", "ptr"}
			return
		}
		walkValue(v.Elem(), path, out, depth+1)
	case reflect.String:
		out[path] = Atom{"string", v.String()}
	case reflect.Slice, reflect.Array:
		if v.Kind() == reflect.Slice && v.Type().Elem().Kind() == reflect.Uint8 {
			out[path] = Atom{"bytes", string(v.Bytes())}
			return
		}
		out[path+"#len"] = Atom{"len", fmt.Sprint(v.Len())}
		for i := 0; i < v.Len(); i++ {
			walkValue(v.Index(i), fmt.Sprintf("%s[%d]", path, i), out, depth+1)
		}
	case reflect.Map:
		out[path+"#len"] = Atom{"len", fmt.Sprint(v.Len())}
		for _, k := range v.MapKeys() {
			walkValue(v.MapIndex(k), fmt.Sprintf("%s[%v]", path, k.Interface()), out, depth+1)
		}
	case reflect.Struct:
		if v.Type() == tTimeT {
			if v.CanInterface() {
				out[path] = Atom{"scalar", v.Interface().(time.Time).UTC().Format(time.RFC3339Nano)}
			}
			return
		}
		for i := 0; i < v.NumField(); i++ {
			f := v.Type().Field(i)
			if f.PkgPath != "" {
				continue // unexported
			}
			walkValue(v.Field(i), path+"."+f.Name, out, depth+1)
		}
	case reflect.Bool, reflect.Int, reflect.Int8, reflect.Int16, reflect.Int32, reflect.Int64,
		reflect.Uint, reflect.Uint8, reflect.Uint16, reflect.Uint32, reflect.Uint64, reflect.Float32, reflect.Float64:
		out[path] = Atom{"scalar", fmt.Sprint(v.Interface())}
	default:
		out[path] = Atom{"scalar", v.Kind().String()}
	}
}

// Finding is one deviation found by Compare.
type Finding struct {
	Prop string // C09 | C10
	Sig  string // signature for known-finding matching
	Msg  string
}

const (
	redacted = encrypt.RedactedData // the exported marker, whatever its text
	encPfx   = "encrypted:"
	macPfx   = "hmac-sha256:"
)

func formOK(e Exp, got, orig string) bool {
	switch e {
	case Untouched:
		return got == orig
	case Redact:
		return got == redacted
	case Encrypt:
		return strings.HasPrefix(got, encPfx)
	case Hmac:
		return strings.HasPrefix(got, macPfx)
	case AnyProtected:
		return got == redacted || strings.HasPrefix(got, encPfx) || strings.HasPrefix(got, macPfx)
	case Permitted:
		return got == orig || got == redacted || strings.HasPrefix(got, encPfx) || strings.HasPrefix(got, macPfx)
	}
	return false
}

// LeakSig builds the known-finding signature of a leaking leaf.
func LeakSig(top string, l Leaf) string {
	switch {
	case (top == TStruct) && l.Direct:
		return "leak:payload=struct-by-value/leaf=direct-string-or-bytes-field"
	}
	shape := l.Under
	if shape == "" {
		shape = "root"
	}
	return fmt.Sprintf("leak:top=%s/under=%s/ctx=%s", top, shape, l.Ctx)
}

// CompareOutput checks the filter's output against the twin.
//   - C09: no canary of a protected leaf is readable anywhere in the output; protected leaves have the expected form.
//   - C10: same dynamic types / shape, untouched leaves and every non-leaf scalar equal.
func CompareOutput(p Payload, twin Built, out interface{}) []Finding {
	var fs []Finding
	ta := Atoms(twin.Value)
	oa := Atoms(out)
	leafAt := map[string]Leaf{}
	for _, l := range twin.Leaves {
		leafAt[l.Path] = l
	}
	// leak rule: search every string/bytes atom (and map keys through the paths) of the output
	var texts []string
	for path, a := range oa {
		if a.Kind == "string" || a.Kind == "bytes" {
			texts = append(texts, a.S)
		}
		texts = append(texts, path)
	}
	texts = append(texts, fmt.Sprintf("%+v", out))
	for _, l := range twin.Leaves {
		if l.Canary == "" || l.Exp == Untouched || l.Exp == Permitted {
			continue
		}
		for _, txt := range texts {
			if strings.Contains(txt, l.Canary) {
				fs = append(fs, Finding{"C09", LeakSig(p.Top, l), fmt.Sprintf("plaintext of leaf %s (tag %q, context %s, expected %s) is readable in the forwarded event", l.Path, l.Tag, l.Ctx, l.Exp)})
				break
			}
		}
	}
	// form rule + shape rule
	var paths []string
	for path := range ta {
		paths = append(paths, path)
	}
	sort.Strings(paths)
	for _, path := range paths {
		t := ta[path]
		o, ok := oa[path]
		if !ok {
			fs = append(fs, Finding{"C10", "shape:missing", fmt.Sprintf("output has no value at %s (input has %s %q)", path, t.Kind, trunc(t.S))})
			continue
		}
		if l, isLeaf := leafAt[path]; isLeaf && (t.Kind == "string" || t.Kind == "bytes") {
			if o.Kind != t.Kind {
				fs = append(fs, Finding{"C10", "shape:leaf-kind", fmt.Sprintf("leaf %s changed kind %s -> %s", path, t.Kind, o.Kind)})
				continue
			}
			if l.Canary == "" {
				continue // empty leaf: nothing to protect, any form accepted
			}
			if !formOK(l.Exp, o.S, t.S) {
				prop := "C09"
				if l.Exp == Untouched {
					prop = "C10"
				}
				if strings.Contains(o.S, l.Canary) && l.Exp != Untouched {
					continue // already reported by the leak rule
				}
				sig := "form:" + l.Exp.String()
				if p.Top == TStruct && l.Ctx == "taggable-map" && formOK(AnyProtected, o.S, t.S) {
					sig = "form:payload=struct-by-value/taggable-map-field-swept-as-untagged"
				}
				fs = append(fs, Finding{prop, sig, fmt.Sprintf("leaf %s (tag %q, context %s) is %q, expected %s", path, l.Tag, l.Ctx, trunc(o.S), l.Exp)})
			}
			continue
		}
		if o != t {
			// a string/bytes atom that is not a registered leaf (e.g. map value kinds we do not protect) or a scalar
			if (t.Kind == "string" || t.Kind == "bytes") && t.S == "" {
				continue
			}
			fs = append(fs, Finding{"C10", "shape:" + t.Kind, fmt.Sprintf("value at %s changed: %s %q -> %s %q", path, t.Kind, trunc(t.S), o.Kind, trunc(o.S))})
		}
	}
	for path, o := range oa {
		if _, ok := ta[path]; !ok {
			fs = append(fs, Finding{"C10", "shape:extra", fmt.Sprintf("output has an extra value at %s (%s %q)", path, o.Kind, trunc(o.S))})
		}
	}
	if reflect.TypeOf(out) != reflect.TypeOf(twin.Value) {
		fs = append(fs, Finding{"C10", "shape:dynamic-type", fmt.Sprintf("payload type changed %T -> %T", twin.Value, out)})
	}
	return fs
}

// CompareInput checks that the processed input still equals its twin (C10).
func CompareInput(twin Built, in interface{}) []Finding {
	ta, ia := Atoms(twin.Value), Atoms(in)
	var fs []Finding
	for path, t := range ta {
		if i, ok := ia[path]; !ok || i != t {
			fs = append(fs, Finding{"C10", "input-mutated", fmt.Sprintf("the caller's payload was modified at %s: %q -> %q", path, trunc(t.S), trunc(ia[path].S))})
		}
	}
	for path := range ia {
		if _, ok := ta[path]; !ok {
			fs = append(fs, Finding{"C10", "input-mutated", fmt.Sprintf("the caller's payload gained a value at %s", path)})
		}
	}
	if !reflect.DeepEqual(in, twin.Value) && len(fs) == 0 {
		// DeepEqual also sees nil-vs-empty and unexported parts; report only when the atoms agree on nothing being wrong
		if !bytes.Equal([]byte(fmt.Sprintf("%#v", in)), []byte(fmt.Sprintf("%#v", twin.Value))) {
			_ = 0 // pointer addresses differ in %#v; DeepEqual on protobuf internals is not reliable: atoms are authoritative
		}
	}
	return fs
}

func trunc(s string) string {
	if len(s) > 48 {
		return s[:48] + "…"
	}
	return s
}

// SelfCheck verifies that every registered leaf is found by the generic walker
// at the recorded path with its canary (harness consistency).
func SelfCheck(b Built) error {
	a := Atoms(b.Value)
	for _, l := range b.Leaves {
		at, ok := a[l.Path]
		if !ok {
			return fmt.Errorf("leaf path %s not found by the walker", l.Path)
		}
		if l.Canary != "" && !strings.Contains(at.S, l.Canary) {
			return fmt.Errorf("leaf %s does not hold its canary", l.Path)
		}
	}
	return nil
}
