// Package payload implements the payload shape grammar for the encrypt.Filter
// checks (C09, C10, C19): a Shape is pure data drawn by rapid; Build turns it
// into a Go value (struct types come from reflect.StructOf so that field kinds
// and class tags are generated, not hand-picked); building twice with the same
// seed yields deep-equal, non-aliased twins.  Every protectable leaf carries a
// unique 16-character canary (some of them dressed up as "encrypted:<base64url>" / "hmac-sha256:<base64url>").
package payload

import (
	"crypto/sha256"
	"fmt"
	"reflect"
	"strings"
	"time"

	"github.com/hashicorp/eventlogger/filters/encrypt"
	"google.golang.org/protobuf/types/known/structpb"
	"google.golang.org/protobuf/types/known/wrapperspb"
	"pgregory.net/rapid"
)

// Kinds of shape nodes.
const (
	KString   = "string"
	KStrPtr   = "*string"
	KBytes    = "[]byte"
	KStrs     = "[]string"
	KBytess   = "[][]byte"
	KWStr     = "*wrappers.String"
	KWBytes   = "*wrappers.Bytes"
	KInt      = "int"
	KBool     = "bool"
	KTime     = "time"
	KStruct   = "struct"
	KPStruct  = "*struct"
	KStructs  = "[]struct"
	KPStrcts  = "[]*struct"
	KIface    = "iface(*struct)"
	KIfaces   = "[]iface"
	KMap      = "map"
	KTMap     = "taggable-map"
	KPBStruct = "*structpb.Struct"
	KPTMap    = "*taggable-map"
	KTMaps    = "[]taggable-map"
	KPTMaps   = "[]*taggable-map"
	KTStruct  = "*taggable-struct"
	KNTMap    = "nested-tagged-map" // a plain map below a Taggable map whose keys are tagged through nested pointers
)

// Map value layouts.
const (
	MSI   = "map[string]interface{}"
	MSS   = "map[string]string"
	MSB   = "map[string][]byte"
	MSLS  = "map[string][]string"
	MSPS  = "map[string]*struct"
	MSST  = "map[string]struct"
	MSMSS = "map[string]map[string]string"
)

type Shape struct {
	K     string
	Tag   string // struct tag content for this node when it is a struct field ("" + HasTag=false = no tag)
	HasT  bool
	Kids  []*Shape // struct fields; slice element shape (Kids[0]) for struct slices; map values
	Keys  []string // map keys (also carries the taggable-map classification: "k|class|op")
	MT    string
	N     int  // element count of slices
	Nil   bool // nil pointer / nil slice / nil map / nil interface
	Ign   bool // (*struct kinds) the pointer type is listed in Filter.IgnoreTypes
	BadPointer bool // (taggable maps) one of the tags points at a list element that does not exist
	Empty bool // empty string / empty (non-nil) slice
}

func (s *Shape) isLeaf() bool {
	switch s.K {
	case KString, KStrPtr, KBytes, KStrs, KBytess, KWStr, KWBytes:
		return true
	}
	return false
}

func (s *Shape) String() string {
	var sb strings.Builder
	s.write(&sb)
	return sb.String()
}

func (s *Shape) write(sb *strings.Builder) {
	sb.WriteString(s.K)
	if s.K == KMap {
		sb.WriteString("<" + s.MT + ">")
	}
	if s.HasT {
		fmt.Fprintf(sb, "`%s`", s.Tag)
	}
	if s.Ign {
		sb.WriteString("(ignored-type)")
	}
	if s.Nil {
		sb.WriteString("(nil)")
		return
	}
	if s.Empty {
		sb.WriteString("(empty)")
	}
	switch s.K {
	case KStrs, KBytess:
		fmt.Fprintf(sb, "×%d", s.N)
	case KStructs, KPStrcts:
		fmt.Fprintf(sb, "×%d", s.N)
		if len(s.Kids) > 0 {
			sb.WriteString("{")
			s.Kids[0].write(sb)
			sb.WriteString("}")
		}
	case KStruct, KPStruct, KIface:
		sb.WriteString("{")
		for i, k := range s.Kids {
			if i > 0 {
				sb.WriteString(" ")
			}
			k.write(sb)
		}
		sb.WriteString("}")
	case KPTMap:
		sb.WriteString("->")
		s.Kids[0].write(sb)
	case KTStruct:
		sb.WriteString("{Attrs:")
		s.Kids[0].write(sb)
		sb.WriteString(" Plain:")
		s.Kids[1].write(sb)
		sb.WriteString("}")
	case KIfaces, KTMaps, KPTMaps:
		sb.WriteString("[")
		for i, k := range s.Kids {
			if i > 0 {
				sb.WriteString(" ")
			}
			k.write(sb)
		}
		sb.WriteString("]")
	case KPBStruct:
		fmt.Fprintf(sb, "{%d string values}", len(s.Keys))
	case KMap, KTMap, KNTMap:
		sb.WriteString("{")
		for i, k := range s.Kids {
			if i > 0 {
				sb.WriteString(" ")
			}
			fmt.Fprintf(sb, "%q:", s.Keys[i])
			k.write(sb)
		}
		sb.WriteString("}")
	}
}

// ---------------------------------------------------------------------------
// generation

var classWords = []string{"public", "sensitive", "sensitive", "secret", "secret", "", "unknown", "Sensitive", "PUBLIC", "classified"}
var opWords = []string{"", "", "", "redact", "encrypt", "hmac-sha256", "REDACT", "Encrypt", "bogus", " redact", "encrypt,extra"}

func genTag(t *rapid.T) (string, bool) {
	if rapid.IntRange(0, 5).Draw(t, "notag") == 0 {
		return "", false
	}
	c := rapid.SampledFrom(classWords).Draw(t, "class")
	o := rapid.SampledFrom(opWords).Draw(t, "op")
	if o == "" {
		if rapid.IntRange(0, 5).Draw(t, "trailingComma") == 0 {
			return c + ",", true
		}
		return c, true
	}
	return c + "," + o, true
}

var leafKinds = []string{KString, KString, KString, KBytes, KBytes, KStrs, KBytess, KStrPtr, KWStr, KWBytes}
var inertKinds = []string{KInt, KBool, KTime}

func genLeaf(t *rapid.T, kinds []string) *Shape {
	s := &Shape{K: rapid.SampledFrom(kinds).Draw(t, "leafKind")}
	switch s.K {
	case KStrs, KBytess:
		s.N = rapid.IntRange(0, 3).Draw(t, "n")
		if s.N == 0 {
			s.Nil = rapid.Bool().Draw(t, "nilSlice")
			s.Empty = !s.Nil
		}
	case KStrPtr, KWStr, KWBytes:
		s.Nil = rapid.IntRange(0, 7).Draw(t, "nilPtr") == 0
	case KBytes:
		s.Nil = rapid.IntRange(0, 9).Draw(t, "nilBytes") == 0
	}
	if s.K == KString || s.K == KBytes {
		s.Empty = !s.Nil && rapid.IntRange(0, 9).Draw(t, "empty") == 0
	}
	return s
}

// genField draws a struct field shape.
func genField(t *rapid.T, depth int) *Shape {
	choices := []string{"leaf", "leaf", "leaf", "leaf", "inert"}
	if depth > 0 {
		choices = append(choices, KStruct, KPStruct, KPStruct, KStructs, KPStrcts, KIface, KIfaces, KMap, KMap, KTMap, KPBStruct, KPTMap, KTMaps, KPTMaps, KTStruct)
	}
	var s *Shape
	switch c := rapid.SampledFrom(choices).Draw(t, "fieldKind"); c {
	case "leaf":
		s = genLeaf(t, leafKinds)
	case "inert":
		s = &Shape{K: rapid.SampledFrom(inertKinds).Draw(t, "inert")}
	case KStruct, KPStruct, KIface:
		s = genStruct(t, depth-1)
		s.K = c
		if c != KStruct {
			s.Nil = rapid.IntRange(0, 9).Draw(t, "nilPtr") == 0
		}
		if c == KPStruct || c == KIface {
			s.Ign = rapid.IntRange(0, 7).Draw(t, "ignoredType") == 0
		}
	case KPBStruct:
		s = &Shape{K: KPBStruct}
		n := rapid.IntRange(0, 3).Draw(t, "nkeys")
		for i := 0; i < n; i++ {
			s.Keys = append(s.Keys, fmt.Sprintf("p%d", i))
		}
		s.Nil = rapid.IntRange(0, 9).Draw(t, "nilPtr") == 0
	case KStructs, KPStrcts:
		s = &Shape{K: c, N: rapid.IntRange(0, 2).Draw(t, "n"), Kids: []*Shape{genStruct(t, depth-1)}}
	case KIfaces:
		s = genIfaces(t, depth-1, true)
	case KMap:
		s = genMap(t, depth-1)
	case KTMap:
		s = genTMap(t, depth-1)
	case KPTMap:
		s = &Shape{K: KPTMap, Kids: []*Shape{genTMap(t, depth-1)}}
	case KTStruct:
		s = genTStruct(t)
	case KTMaps, KPTMaps:
		s = &Shape{K: c}
		n := rapid.IntRange(0, 2).Draw(t, "n")
		for i := 0; i < n; i++ {
			s.Kids = append(s.Kids, genTMap(t, depth-1))
		}
	}
	s.Tag, s.HasT = genTag(t)
	return s
}

func genStruct(t *rapid.T, depth int) *Shape {
	s := &Shape{K: KStruct}
	n := rapid.IntRange(1, 4).Draw(t, "nfields")
	for i := 0; i < n; i++ {
		s.Kids = append(s.Kids, genField(t, depth))
	}
	return s
}

// genIfaces draws a []interface{}. Taggable map elements are only generated where the filter
// documents/tests consulting Tags(): in struct fields and top-level slices, not below untagged maps.
func genIfaces(t *rapid.T, depth int, allowTaggable bool) *Shape {
	s := &Shape{K: KIfaces}
	n := rapid.IntRange(0, 2).Draw(t, "n")
	for i := 0; i < n; i++ {
		k := rapid.IntRange(0, 3).Draw(t, "elemKind")
		if k == 1 && !allowTaggable {
			k = 0
		}
		switch k {
		case 0:
			s.Kids = append(s.Kids, genMapOf(t, depth, MSI))
		case 1:
			s.Kids = append(s.Kids, &Shape{K: KPTMap, Kids: []*Shape{genTMap(t, depth)}})
		default:
			e := genStruct(t, depth)
			e.K = KPStruct
			e.Ign = rapid.IntRange(0, 7).Draw(t, "ignoredType") == 0
			s.Kids = append(s.Kids, e)
		}
	}
	return s
}

func genMap(t *rapid.T, depth int) *Shape {
	mt := rapid.SampledFrom([]string{MSI, MSI, MSI, MSS, MSB, MSLS, MSPS, MSST, MSMSS}).Draw(t, "mapType")
	return genMapOf(t, depth, mt)
}

func genMapOf(t *rapid.T, depth int, mt string) *Shape {
	s := &Shape{K: KMap, MT: mt}
	if rapid.IntRange(0, 11).Draw(t, "nilMap") == 0 {
		s.Nil = true
		return s
	}
	n := rapid.IntRange(0, 3).Draw(t, "nkeys")
	var elemShape *Shape
	for i := 0; i < n; i++ {
		s.Keys = append(s.Keys, fmt.Sprintf("k%d", i))
		var v *Shape
		switch mt {
		case MSS:
			v = &Shape{K: KString}
		case MSB:
			v = &Shape{K: KBytes}
		case MSLS:
			v = &Shape{K: KStrs, N: rapid.IntRange(0, 2).Draw(t, "n")}
			if v.N == 0 {
				v.Empty = true
			}
		case MSPS, MSST:
			if elemShape == nil {
				elemShape = genStruct(t, max(depth-1, 0))
			}
			v = cloneShape(elemShape)
			if mt == MSPS {
				v.K = KPStruct
			}
		case MSMSS:
			v = genMapOf(t, 0, MSS)
			v.Nil = false
		default: // MSI
			opts := []string{KString, KString, KBytes, KStrs, KBytess, KInt, KBool}
			if depth > 0 && rapid.IntRange(0, 39).Draw(t, "deepChain") == 0 {
				// maps nested directly in maps, far deeper than the rest of the grammar goes
				levels := rapid.SampledFrom([]int{40, 66, 70, 130}).Draw(t, "chainLevels")
				leafMap := &Shape{K: KMap, MT: MSI, Keys: []string{"bottom"}, Kids: []*Shape{{K: KString}}}
				cur := leafMap
				for l := 0; l < levels; l++ {
					cur = &Shape{K: KMap, MT: MSI, Keys: []string{"d"}, Kids: []*Shape{cur}}
				}
				s.Kids = append(s.Kids, cur)
				continue
			}
			if depth > 0 {
				opts = append(opts, KPStruct, KStruct, KMap, KPStrcts, "[]map", KIfaces)
			}
			switch c := rapid.SampledFrom(opts).Draw(t, "mapValKind"); c {
			case KString, KBytes, KInt, KBool:
				v = &Shape{K: c}
			case KStrs, KBytess:
				v = &Shape{K: c, N: rapid.IntRange(0, 2).Draw(t, "n")}
				if v.N == 0 {
					v.Empty = true
				}
			case KPStruct, KStruct:
				v = genStruct(t, depth-1)
				v.K = c
				if c == KPStruct {
					v.Ign = rapid.IntRange(0, 7).Draw(t, "ignoredType") == 0
				}
			case KMap:
				v = genMapOf(t, depth-1, rapid.SampledFrom([]string{MSI, MSS}).Draw(t, "innerMap"))
				v.Nil = false
			case KPStrcts:
				v = &Shape{K: KPStrcts, N: rapid.IntRange(0, 2).Draw(t, "n"), Kids: []*Shape{genStruct(t, depth-1)}}
			case "[]map":
				v = &Shape{K: "[]map", N: 0}
				m := rapid.IntRange(0, 2).Draw(t, "n")
				for j := 0; j < m; j++ {
					e := genMapOf(t, depth-1, MSI)
					e.Nil = false
					v.Kids = append(v.Kids, e)
				}
			case KIfaces:
				v = genIfaces(t, depth-1, false)
			}
		}
		s.Kids = append(s.Kids, v)
	}
	return s
}

// genTMap draws a Taggable map: the classification of a key is encoded in the key itself.
func genTMap(t *rapid.T, depth int) *Shape { return genTMapLevel(t, depth, 0) }

func genTMapLevel(t *rapid.T, depth, level int) *Shape {
	s := &Shape{K: KTMap}
	if level == 0 && rapid.IntRange(0, 11).Draw(t, "listIndexTag") == 0 {
		// a tag that points at an element the list does not have: a bad tag pointer, Process must fail
		n := rapid.SampledFrom([]int{0, 2}).Draw(t, "listLen")
		idx := n + rapid.SampledFrom([]int{0, 3}).Draw(t, "beyond")
		s.Keys = append(s.Keys, fmt.Sprintf("lst|%s|%s|%d", rapid.SampledFrom([]string{"public", "sensitive", "secret"}).Draw(t, "lclass"), rapid.SampledFrom([]string{"", "redact"}).Draw(t, "lop"), idx))
		l := &Shape{K: KStrs, N: n}
		if n == 0 {
			l.Empty = true
		}
		s.Kids = append(s.Kids, l)
		s.BadPointer = true
	}
	n := rapid.IntRange(0, 4).Draw(t, "nkeys")
	for i := 0; i < n; i++ {
		key := fmt.Sprintf("t%d", i)
		switch rapid.IntRange(0, 3).Draw(t, "tagged") {
		case 0: // untagged key
		default:
			c := rapid.SampledFrom([]string{"public", "sensitive", "secret", "sensitive", "secret"}).Draw(t, "tclass")
			o := rapid.SampledFrom([]string{"", "", "redact", "encrypt", "hmac-sha256"}).Draw(t, "top")
			key = fmt.Sprintf("%s|%s|%s", key, c, o)
		}
		nestOdds := 3
		if level > 0 && level < 6 {
			nestOdds = 1 // once nested, keep nesting with probability 1/2: pointers of 3-7 segments
		}
		if !strings.Contains(key, "|") && rapid.IntRange(0, nestOdds).Draw(t, "nestedTagged") == 0 {
			// an untagged key holding a plain map whose own keys are tagged through nested pointers; the
			// outer key may be an unusual but legal map key
			outer := rapid.SampledFrom([]string{"inner", "inner", "", ".", "..", "a~b", "x/y", "sp ace"}).Draw(t, "outerKey")
			dup := false
			for _, k := range s.Keys {
				if k == outer {
					dup = true
				}
			}
			if !dup {
				n := genTMapLevel(t, 0, level+1)
				n.K = KNTMap
				s.Keys = append(s.Keys, outer)
				s.Kids = append(s.Kids, n)
				continue
			}
		}
		s.Keys = append(s.Keys, key)
		if strings.Contains(key, "|") || depth <= 0 || rapid.IntRange(0, 2).Draw(t, "plainVal") > 0 {
			s.Kids = append(s.Kids, &Shape{K: KString})
		} else {
			v := genMapOf(t, depth-1, MSI)
			v.Nil = false
			s.Kids = append(s.Kids, v)
		}
	}
	return s
}

// genTStruct draws a *TStructT: a Taggable struct whose Tags() point into its Attrs map
// ("/Attrs/<key>", the key carries its own classification like the taggable map keys do).
func genTStruct(t *rapid.T) *Shape {
	s := &Shape{K: KTStruct}
	attrs := genTMap(t, 0)
	plain := genMapOf(t, 0, MSS)
	plain.Nil = false
	s.Kids = []*Shape{attrs, plain}
	s.Nil = rapid.IntRange(0, 9).Draw(t, "nilPtr") == 0
	return s
}

func cloneShape(s *Shape) *Shape {
	c := *s
	c.Kids = nil
	for _, k := range s.Kids {
		c.Kids = append(c.Kids, cloneShape(k))
	}
	c.Keys = append([]string(nil), s.Keys...)
	return &c
}

// Top-level payload forms.
const (
	TPStruct  = "*struct"
	TStruct   = "struct-by-value"
	TStructs  = "[]struct"
	TPStructs = "[]*struct"
	TStrs     = "[]string"
	TPStrs    = "*[]string"
	TBytess   = "[][]byte"
	TPString  = "*string"
	TPBytes   = "*[]byte"
	TString   = "string"
	TBytes    = "[]byte"
	TTMap     = "taggable-map"
	TPTMap    = "*taggable-map"
	TMap      = "map"
	TPMap     = "*map"
	TMaps     = "[]map"
	TIfaces   = "[]interface{}"
	TTMaps    = "[]taggable-map"
	TPTMaps   = "[]*taggable-map"
	TTStruct  = "*taggable-struct"
	TNil      = "nil"
	TTypedNil = "typed-nil"
	TZero     = "zero-struct"
)

type Payload struct {
	Top  string
	Root *Shape
	Seed uint64
}

func (p Payload) String() string {
	if p.Root == nil {
		return p.Top
	}
	return p.Top + ":" + p.Root.String()
}

// Gen draws a payload description.
func Gen(t *rapid.T, maxDepth int) Payload {
	p := Payload{Seed: rapid.Uint64().Draw(t, "canarySeed")}
	depth := rapid.IntRange(0, maxDepth).Draw(t, "depth")
	p.Top = rapid.SampledFrom([]string{TPStruct, TPStruct, TPStruct, TPStruct, TPStruct, TPStruct, TStruct, TStructs, TPStructs, TStrs, TPStrs, TBytess, TPString, TPBytes, TString, TBytes,
		TTMap, TPTMap, TMap, TMap, TPMap, TMaps, TIfaces, TTMaps, TPTMaps, TTStruct, TNil, TTypedNil, TZero}).Draw(t, "top")
	switch p.Top {
	case TPStruct, TStruct, TTypedNil, TZero:
		p.Root = genStruct(t, depth)
	case TStructs, TPStructs:
		p.Root = &Shape{K: KStructs, N: rapid.IntRange(0, 3).Draw(t, "n"), Kids: []*Shape{genStruct(t, depth)}}
		if p.Top == TPStructs {
			p.Root.K = KPStrcts
		}
	case TStrs, TPStrs:
		p.Root = &Shape{K: KStrs, N: rapid.IntRange(0, 3).Draw(t, "n")}
	case TBytess:
		p.Root = &Shape{K: KBytess, N: rapid.IntRange(0, 3).Draw(t, "n")}
	case TPString, TString:
		p.Root = &Shape{K: KString}
	case TPBytes, TBytes:
		p.Root = &Shape{K: KBytes}
	case TTMap, TPTMap:
		p.Root = genTMap(t, depth)
	case TMap, TPMap:
		p.Root = genMap(t, depth)
		p.Root.Nil = false
	case TMaps:
		p.Root = &Shape{K: "[]map"}
		n := rapid.IntRange(0, 2).Draw(t, "n")
		for i := 0; i < n; i++ {
			e := genMapOf(t, depth, MSI)
			e.Nil = false
			p.Root.Kids = append(p.Root.Kids, e)
		}
	case TIfaces:
		p.Root = genIfaces(t, depth, true)
	case TTStruct:
		p.Root = genTStruct(t)
		p.Root.Nil = false
	case TTMaps, TPTMaps:
		p.Root = &Shape{K: KTMaps}
		if p.Top == TPTMaps {
			p.Root.K = KPTMaps
		}
		n := rapid.IntRange(0, 3).Draw(t, "n")
		for i := 0; i < n; i++ {
			p.Root.Kids = append(p.Root.Kids, genTMap(t, depth))
		}
	}
	return p
}

// ---------------------------------------------------------------------------
// canaries

type canaries struct {
	seed uint64
	n    int
}

const alphabet = "ABCDEFGHJKLMNPQRSTUVWXYZabcdefghijkmnopqrstuvwxyz23456789"

func (c *canaries) next() string {
	c.n++
	h := sha256.Sum256([]byte(fmt.Sprintf("canary-%d-%d", c.seed, c.n)))
	b := make([]byte, 16)
	for i := range b {
		b[i] = alphabet[int(h[i])%len(alphabet)]
	}
	// some plaintexts look exactly like the filter's own output (prefix + base64url text): they are plaintext all the same
	switch int(h[16]) % 9 {
	case 0:
		return "encrypted:" + string(b)
	case 1:
		return "hmac-sha256:" + string(b)
	}
	return string(b)
}

// TMapT is the Taggable map type: a key "name|class|op" carries its own tag.
type TMapT map[string]interface{}

func (m TMapT) Tags() ([]encrypt.PointerTag, error) {
	return collectTags("", map[string]interface{}(m)), nil
}

var ptrEsc = strings.NewReplacer("~", "~0", "/", "~1")

// collectTags emits one PointerTag per "name|class|op" key, also inside nested plain maps (nested pointers
// /outer/inner, with pointerstructure escaping of the segments).
func collectTags(prefix string, m map[string]interface{}) []encrypt.PointerTag {
	var out []encrypt.PointerTag
	for k, v := range m {
		parts := strings.Split(k, "|")
		if len(parts) == 3 {
			out = append(out, encrypt.PointerTag{Pointer: prefix + "/" + ptrEsc.Replace(k), Classification: encrypt.DataClassification(parts[1]), Filter: encrypt.FilterOperation(parts[2])})
			continue
		}
		if len(parts) == 4 { // the tag points at one element of the list stored under this key
			out = append(out, encrypt.PointerTag{Pointer: prefix + "/" + ptrEsc.Replace(k) + "/" + parts[3], Classification: encrypt.DataClassification(parts[1]), Filter: encrypt.FilterOperation(parts[2])})
			continue
		}
		if inner, ok := v.(map[string]interface{}); ok {
			out = append(out, collectTags(prefix+"/"+ptrEsc.Replace(k), inner)...)
		}
	}
	return out
}

// TStructT is a Taggable struct: class-tagged fields plus a map whose keys are tagged through
// pointers of the form /Attrs/<key>.
type TStructT struct {
	Pub   string `class:"public"`
	Sec   string `class:"secret"`
	Sens  []byte `class:"sensitive,hmac-sha256"`
	Attrs map[string]interface{}
	Plain map[string]string
	Count int
}

func (t *TStructT) Tags() ([]encrypt.PointerTag, error) {
	return collectTags("/Attrs", t.Attrs), nil
}

var (
	tString   = reflect.TypeOf("")
	tBytes    = reflect.TypeOf([]byte(nil))
	tIface    = reflect.TypeOf((*interface{})(nil)).Elem()
	tTime     = reflect.TypeOf(time.Time{})
	tWStr     = reflect.TypeOf(&wrapperspb.StringValue{})
	tWBytes   = reflect.TypeOf(&wrapperspb.BytesValue{})
	tTMap     = reflect.TypeOf(TMapT(nil))
	tMSI      = reflect.TypeOf(map[string]interface{}(nil))
	tPBStruct = reflect.TypeOf(&structpb.Struct{})
	baseTime  = time.Date(2026, 3, 4, 5, 6, 7, 8, time.UTC)
)

// typeOf returns the Go type of a shape node.
func typeOf(s *Shape) reflect.Type {
	switch s.K {
	case KString:
		return tString
	case KStrPtr:
		return reflect.PointerTo(tString)
	case KBytes:
		return tBytes
	case KStrs:
		return reflect.SliceOf(tString)
	case KBytess:
		return reflect.SliceOf(tBytes)
	case KWStr:
		return tWStr
	case KWBytes:
		return tWBytes
	case KInt:
		return reflect.TypeOf(0)
	case KBool:
		return reflect.TypeOf(false)
	case KTime:
		return tTime
	case KStruct:
		return structType(s)
	case KPStruct:
		return reflect.PointerTo(structType(s))
	case KStructs:
		return reflect.SliceOf(structType(s.Kids[0]))
	case KPStrcts:
		return reflect.SliceOf(reflect.PointerTo(structType(s.Kids[0])))
	case KIface:
		return tIface
	case KIfaces:
		return reflect.SliceOf(tIface)
	case "[]map":
		return reflect.SliceOf(tMSI)
	case KTMap:
		return tTMap
	case KNTMap:
		return tMSI
	case KPTMap:
		return reflect.PointerTo(tTMap)
	case KTStruct:
		return reflect.TypeOf(&TStructT{})
	case KTMaps:
		return reflect.SliceOf(tTMap)
	case KPTMaps:
		return reflect.SliceOf(reflect.PointerTo(tTMap))
	case KPBStruct:
		return tPBStruct
	case KMap:
		switch s.MT {
		case MSI:
			return tMSI
		case MSS:
			return reflect.MapOf(tString, tString)
		case MSB:
			return reflect.MapOf(tString, tBytes)
		case MSLS:
			return reflect.MapOf(tString, reflect.SliceOf(tString))
		case MSPS, MSST:
			var et reflect.Type
			if len(s.Kids) > 0 {
				et = structType(s.Kids[0])
			} else {
				et = structType(&Shape{K: KStruct, Kids: []*Shape{{K: KString}}})
			}
			if s.MT == MSPS {
				et = reflect.PointerTo(et)
			}
			return reflect.MapOf(tString, et)
		case MSMSS:
			return reflect.MapOf(tString, reflect.MapOf(tString, tString))
		}
	}
	panic("payload: no type for " + s.K)
}

func structType(s *Shape) reflect.Type {
	fields := make([]reflect.StructField, len(s.Kids))
	for i, k := range s.Kids {
		f := reflect.StructField{Name: fmt.Sprintf("F%d", i), Type: typeOf(k)}
		if k.HasT {
			f.Tag = reflect.StructTag(fmt.Sprintf(`class:"%s"`, k.Tag))
		}
		fields[i] = f
	}
	return reflect.StructOf(fields)
}
