// Package simul: calls released at the same instant, plus light-weight counting nodes.
package simul

import (
	"context"
	"runtime"
	"sync"
	"sync/atomic"
	"time"

	"github.com/hashicorp/eventlogger"
)

// Burst releases all functions together through a spin barrier and waits for
// them; it returns false if they did not all return within d.
func Burst(d time.Duration, fs ...func()) bool {
	var ready atomic.Int32
	var gate atomic.Bool
	var wg sync.WaitGroup
	for _, f := range fs {
		wg.Add(1)
		go func(f func()) {
			defer wg.Done()
			ready.Add(1)
			for spins := 0; !gate.Load(); spins++ {
				if spins > 2000 {
					runtime.Gosched() // oversubscribed machine: do not starve the goroutine that opens the gate
				}
			}
			f()
		}(f)
	}
	for int(ready.Load()) < len(fs) {
		runtime.Gosched()
	}
	gate.Store(true)
	done := make(chan struct{})
	go func() { wg.Wait(); close(done) }()
	select {
	case <-done:
		return true
	case <-time.After(d):
		return false
	}
}

// Node counts what happens to it. Type() yields the processor so that the
// library's validation (which calls it) is a scheduling point.
type Node struct {
	Name         string
	T            eventlogger.NodeType
	Processed    atomic.Int64
	Closed       atomic.Int64
	Reopened     atomic.Int64
	Yield        bool
	Block        chan struct{} // when non-nil Process waits for it to be closed
	Entered      chan struct{} // when non-nil receives a token on every Process entry (buffered by the test)
	OnProcess    func()
	OnProcessCtx func(ctx context.Context) // like OnProcess, with the context the node was given
	OnReopen     func(n int64) error       // called with the running count of Reopen calls; its error is returned
	OnType       func()                    // Type() is user code too
}

func (n *Node) Process(ctx context.Context, e *eventlogger.Event) (*eventlogger.Event, error) {
	n.Processed.Add(1)
	if n.Entered != nil {
		select {
		case n.Entered <- struct{}{}:
		default:
		}
	}
	if n.OnProcess != nil {
		n.OnProcess()
	}
	if n.OnProcessCtx != nil {
		n.OnProcessCtx(ctx)
	}
	if n.Block != nil {
		<-n.Block
	}
	if n.T == eventlogger.NodeTypeSink {
		return nil, nil
	}
	return e, nil
}

func (n *Node) Reopen() error {
	k := n.Reopened.Add(1)
	if n.OnReopen != nil {
		return n.OnReopen(k)
	}
	return nil
}

func (n *Node) Type() eventlogger.NodeType {
	if n.OnType != nil {
		n.OnType()
	}
	if n.Yield {
		runtime.Gosched()
	}
	return n.T
}

func (n *Node) Close(ctx context.Context) error { n.Closed.Add(1); return nil }

func New(name string, t eventlogger.NodeType) *Node { return &Node{Name: name, T: t, Yield: true} }
