// Package bgen generates Broker histories (registry calls and Sends) for the
// dispatch properties C01-C03 and C20.
package bgen

import (
	"fmt"
	"sort"
	"strings"
	"time"

	"github.com/hashicorp/eventlogger"
	"pgregory.net/rapid"
	"verif/harness/internal/model"
	"verif/harness/internal/nodes"
	"verif/harness/internal/sched"
)

// The name pools contain families of names that are distinct strings but collide under careless normalisation:
// surrounding white space, case, white-space-only names, a separator moved between event type and pipeline id
// ("A/x"+"p0" vs "A"+"x/p0"), names longer than 255 bytes, and a name of few characters but many bytes.
var (
	Types   = []string{"A", "A", "A", "A", "A", "A", "A", "B", "B", "B", "B", "C", "C", "A ", " A", "a", "A/x", "\t", LongASCII, LongMultiByte}
	PipeIDs = []string{"p0", "p1", "p2", "p3", "p0 ", "P0", "x/p0", " "} // with distinct roots the index selects the root node as well
	Filters = []string{"f0", "f1", "f2"}
	Fmts    = []string{"m0", "m1"}
	Sinks   = []string{"s0", "s1"}
	Roots   = []string{"r0", "r1", "r2", "r3", "r4", "r5", "r6", "r7"}

	LongASCII     = "T" + strings.Repeat("long-event-type-", 20) // 321 bytes
	LongMultiByte = strings.Repeat("\u00e9\u4e8b", 14)           // 28 characters, 70 bytes
	// UnknownTypes are never registered: a Send of such a type must fail cleanly.
	UnknownTypes = []string{"Z", "Z ", strings.Repeat("\u4e8b\u4ef6", 15), strings.Repeat("\u00e9", 40), strings.Repeat("\U0001F600", 17), strings.Repeat("z", 300), "z\xff\xfe", ""}
	// StopTimes are the instants the Broker's clock may be stopped at (never the zero time: a creation time is promised).
	StopTimes = []time.Time{time.Date(2100, 1, 1, 0, 0, 0, 0, time.UTC), time.Date(1999, 12, 31, 23, 59, 59, 0, time.FixedZone("x", 3600)), time.Date(3000, 1, 1, 0, 0, 0, 0, time.UTC), time.Date(1600, 2, 29, 0, 0, 0, 1, time.UTC), time.Unix(0, 0)}
)

// IntendedType of a pool node id.
func IntendedType(id string) int {
	switch id[0] {
	case 'f', 'r':
		return int(eventlogger.NodeTypeFilter)
	case 'm':
		if id == "m1" {
			return int(eventlogger.NodeTypeFormatterFilter)
		}
		return int(eventlogger.NodeTypeFormatter)
	case 's':
		return int(eventlogger.NodeTypeSink)
	}
	return 0
}

func init() { model.StopTimes = StopTimes }

func Pool() []string {
	var p []string
	p = append(p, Filters...)
	p = append(p, Fmts...)
	p = append(p, Sinks...)
	p = append(p, Roots...)
	return p
}

// SendStep is one Send with its per-node script and context/schedule plan.
type SendStep struct {
	ET          string
	Script      map[string]nodes.Behav // by node id
	Ctx         int                    // 0 live, 1 cancelled before the call, 2 cancelled at a hook hit
	CancelPoint string
	CancelOcc   int
	Actions     []byte
	Reentrant   *model.Op      // registry call made from inside the first node invocation of this Send
	CtxKind     int            // context flavour, see sched.WithKind
	ErrKinds    map[string]int // by node id: flavour of the error a failing node returns
}

func (s *SendStep) String() string {
	var ks []string
	for k, v := range s.Script {
		if v != nodes.Pass {
			ks = append(ks, k+"="+v.String())
		}
	}
	sort.Strings(ks)
	c := [...]string{"live", "precancelled", "cancel@" + s.CancelPoint + fmt.Sprintf("#%d", s.CancelOcc)}[s.Ctx]
	var eks []string
	for k, v := range s.ErrKinds {
		if v != 0 {
			eks = append(eks, fmt.Sprintf("%s:errkind%d", k, v))
		}
	}
	sort.Strings(eks)
	re := ""
	if s.Reentrant != nil {
		re = ",reentrant:" + s.Reentrant.String()
	}
	return fmt.Sprintf("Send(%s,{%s},%s,ctxkind%d%s%s)", s.ET, strings.Join(ks, ","), c, s.CtxKind, strings.Join(eks, ","), re)
}

type Step struct {
	Op   *model.Op
	Send *SendStep
}

func (s Step) String() string {
	if s.Op != nil {
		return s.Op.String()
	}
	return s.Send.String()
}

func DescribeSteps(steps []Step) string {
	out := make([]string, len(steps))
	for i, s := range steps {
		out[i] = s.String()
	}
	return strings.Join(out, "; ")
}

// Setup returns the ops registering the whole node pool.
func Setup(t *rapid.T) []model.Op {
	var ops []model.Op
	for _, id := range Pool() {
		op := model.Op{K: "regnode", N: id, NT: IntendedType(id), Shape: rapid.SampledFrom([]int{0, 0, 0, 1, 2, 3}).Draw(t, "shape-"+id)}
		if id[0] == 's' {
			op.SinkRet = rapid.IntRange(0, 2).Draw(t, "sinkRet-"+id) == 0
		}
		ops = append(ops, op)
	}
	return ops
}

func GenRegPipe(t *rapid.T, distinctRoots bool) model.Op {
	pi := rapid.IntRange(0, len(PipeIDs)-1).Draw(t, "pid")
	op := model.Op{K: "regpipe", P: PipeIDs[pi], ET: rapid.SampledFrom(Types).Draw(t, "et"), Pol: rapid.SampledFrom([]int{0, 0, 0, 1, 2}).Draw(t, "pol"), Dress: rapid.SampledFrom([]int{0, 0, 0, 1, 2, 3}).Draw(t, "dress")}
	if rapid.IntRange(0, 9).Draw(t, "wild") == 0 {
		op.IDs = rapid.SliceOfN(rapid.SampledFrom(Pool()), 1, 5).Draw(t, "ids")
		return op
	}
	if distinctRoots {
		op.IDs = append(op.IDs, Roots[pi])
	}
	inner := rapid.SliceOfN(rapid.SampledFrom(append(append([]string{}, Filters...), "f0", "f1", "s0", "m0")), 0, 3).Draw(t, "inner")
	if rapid.IntRange(0, 24).Draw(t, "long") == 0 {
		// a long chain (nothing in the API bounds the length of a pipeline)
		n := rapid.SampledFrom([]int{33, 63, 64, 65, 66, 129, 300}).Draw(t, "longLen")
		for len(inner) < n {
			inner = append(inner, Filters[len(inner)%len(Filters)])
		}
	}
	op.IDs = append(op.IDs, inner...)
	op.IDs = append(op.IDs, rapid.SampledFrom(Fmts).Draw(t, "fmt"), rapid.SampledFrom(Sinks).Draw(t, "sink"))
	return op
}

func GenSend(t *rapid.T, distinctRoots bool, cancelWeight int) *SendStep {
	s := &SendStep{ET: rapid.SampledFrom(append(append([]string{}, Types...), "Z")).Draw(t, "sendET"), Script: map[string]nodes.Behav{}}
	if rapid.IntRange(0, 11).Draw(t, "unknownType") == 0 {
		s.ET = rapid.SampledFrom(UnknownTypes).Draw(t, "unknownET")
	}
	for _, id := range Pool() {
		b := rapid.SampledFrom([]nodes.Behav{nodes.Pass, nodes.Pass, nodes.Pass, nodes.Pass, nodes.Pass, nodes.Pass, nodes.Replace, nodes.Replace, nodes.Drop, nodes.Drop, nodes.Fail, nodes.FailEv}).Draw(t, "b-"+id)
		if distinctRoots && id[0] == 'r' {
			b = nodes.Replace
		}
		s.Script[id] = b
	}
	c := rapid.IntRange(0, 9).Draw(t, "ctx")
	switch {
	case c < cancelWeight:
		s.Ctx = 2
		s.CancelPoint = rapid.SampledFrom(sched.Points).Draw(t, "cancelPoint")
		s.CancelOcc = rapid.IntRange(0, 5).Draw(t, "cancelOcc")
	case c == 9:
		s.Ctx = 1
	}
	s.Actions = rapid.SliceOfN(rapid.SampledFrom([]byte{0, 0, 0, 1, 1, 2, 3}), 0, 12).Draw(t, "actions")
	s.CtxKind = rapid.SampledFrom([]int{0, 0, 1, 1, 2, 3}).Draw(t, "ctxKind")
	if rapid.IntRange(0, 5).Draw(t, "reentrant") == 0 {
		var op model.Op
		switch rapid.IntRange(0, 2).Draw(t, "reKind") {
		case 0:
			op = GenRegPipe(t, distinctRoots)
			op.ET = s.ET
		case 1:
			op = model.Op{K: "rmpipe", ET: s.ET, P: rapid.SampledFrom(PipeIDs).Draw(t, "rePid")}
		default:
			op = model.Op{K: "rpan", ET: s.ET, P: rapid.SampledFrom(PipeIDs).Draw(t, "rePid")}
		}
		s.Reentrant = &op
	}
	s.ErrKinds = map[string]int{}
	for id, b := range s.Script {
		if b == nodes.Fail || b == nodes.FailEv {
			s.ErrKinds[id] = rapid.SampledFrom([]int{nodes.ErrPlain, nodes.ErrPlain, nodes.ErrMultiAgg, nodes.ErrMultiNil, nodes.ErrJoined, nodes.ErrWrapped, nodes.ErrCtxDeadline, nodes.ErrCtxCanceled}).Draw(t, "errKind-"+id)
		}
	}
	return s
}

// GenSteps draws a history: registry mutations interleaved with Sends.
func GenSteps(t *rapid.T, n int, distinctRoots bool, cancelWeight int) []Step {
	stepGen := rapid.Custom(func(t *rapid.T) Step {
		k := rapid.SampledFrom([]int{0, 0, 0, 0, 1, 1, 1, 1, 1, 2, 3, 4, 4, 0, 1, 1, 5}).Draw(t, "kind")
		switch k {
		case 0:
			op := GenRegPipe(t, distinctRoots)
			return Step{Op: &op}
		case 1:
			return Step{Send: GenSend(t, distinctRoots, cancelWeight)}
		case 2:
			return Step{Op: &model.Op{K: "rmpipe", ET: rapid.SampledFrom(Types).Draw(t, "et"), P: rapid.SampledFrom(PipeIDs).Draw(t, "pid")}}
		case 3:
			return Step{Op: &model.Op{K: "rpan", ET: rapid.SampledFrom(Types).Draw(t, "et"), P: rapid.SampledFrom(PipeIDs).Draw(t, "pid"), CtxDone: rapid.IntRange(0, 4).Draw(t, "ctxDone") == 0}}
		case 5:
			return Step{Op: &model.Op{K: "stoptime", V: rapid.IntRange(0, len(StopTimes)-1).Draw(t, "stopTime")}}
		default:
			id := rapid.SampledFrom(Pool()).Draw(t, "nid")
			op := model.Op{K: "regnode", N: id, NT: IntendedType(id), Shape: rapid.SampledFrom([]int{0, 0, 0, 1, 2, 3}).Draw(t, "shape"), Reuse: rapid.IntRange(0, 5).Draw(t, "reuse") == 0}
			if id[0] == 's' {
				op.SinkRet = rapid.Bool().Draw(t, "sinkRet")
			}
			return Step{Op: &op}
		}
	})
	var pre []Step
	np := rapid.IntRange(0, 4).Draw(t, "prelude")
	for i := 0; i < np; i++ {
		op := GenRegPipe(t, distinctRoots)
		if i < 3 {
			op.ET = "A"
		}
		pre = append(pre, Step{Op: &op})
	}
	steps := append(pre, rapid.SliceOfN(stepGen, 1, n).Draw(t, "steps")...)
	// common maintenance sequences around ONE registered pipeline, inserted somewhere after its registration:
	//  0 a node of it is replaced by a new instance under the same id, the UNCHANGED definition is registered again, Send
	//  1 it is removed, removed once more (a no-op), registered again, Send
	//  2 it is removed and registered again, then a Send that may be cancelled at a hook
	//  3 its sink id is re-registered as a FILTER and then as a sink again (the id's type changed in between), the
	//    definition is registered again, Send
	//  4 an earlier-registered pipeline of the type is removed, then this one is overwritten with another sink, Send
	if rapid.IntRange(0, 1).Draw(t, "maintenance") == 0 {
		var regs []int
		for i, st := range steps {
			if st.Op != nil && st.Op.K == "regpipe" && len(st.Op.IDs) >= 2 {
				regs = append(regs, i)
			}
		}
		if len(regs) > 0 {
			ri := rapid.IntRange(0, len(regs)-1).Draw(t, "maintainWhich")
			i := regs[ri]
			def := *steps[i].Op
			def.IDs = append([]string(nil), def.IDs...)
			def.Pol, def.Dress = 0, 0
			send := GenSend(t, distinctRoots, 0)
			send.ET, send.Ctx, send.Reentrant = def.ET, 0, nil
			rm := model.Op{K: "rmpipe", ET: def.ET, P: def.P}
			var ins []Step
			switch rapid.IntRange(0, 4).Draw(t, "maintenanceKind") {
			case 0:
				id := def.IDs[rapid.IntRange(0, len(def.IDs)-1).Draw(t, "replacedNode")]
				repl := model.Op{K: "regnode", N: id, NT: IntendedType(id)}
				ins = []Step{{Op: &repl}, {Op: &def}, {Send: send}}
			case 1:
				rm2 := rm
				ins = []Step{{Op: &rm}, {Op: &rm2}, {Op: &def}, {Send: send}}
			case 2:
				cs := GenSend(t, distinctRoots, 6)
				cs.ET, cs.Reentrant = def.ET, nil
				ins = []Step{{Op: &rm}, {Op: &def}, {Send: cs}, {Send: send}}
			case 3:
				sid := def.IDs[len(def.IDs)-1]
				asFilter := model.Op{K: "regnode", N: sid, NT: int(eventlogger.NodeTypeFilter)}
				asSink := model.Op{K: "regnode", N: sid, NT: int(eventlogger.NodeTypeSink)}
				ins = []Step{{Op: &asFilter}, {Op: &asSink}, {Op: &def}, {Send: send}}
			default:
				over := def
				over.IDs = append([]string(nil), def.IDs...)
				over.IDs[len(over.IDs)-1] = Sinks[(len(def.IDs)+ri)%len(Sinks)]
				if ri > 0 {
					first := *steps[regs[0]].Op
					rmFirst := model.Op{K: "rmpipe", ET: first.ET, P: first.P}
					ins = []Step{{Op: &rmFirst}, {Op: &over}, {Send: send}}
				} else {
					ins = []Step{{Op: &over}, {Send: send}}
				}
			}
			at := rapid.IntRange(i+1, len(steps)).Draw(t, "maintainAt")
			steps = append(steps[:at:at], append(ins, steps[at:]...)...)
		}
	}
	return steps
}

// ErrKindsFor converts the by-id error flavours into a by-instance map.
func ErrKindsFor(x *model.Exec, byID map[string]int) map[*nodes.N]int {
	m := map[*nodes.N]int{}
	for _, n := range x.All {
		if k, ok := byID[n.ID]; ok {
			m[n] = k
		}
	}
	return m
}

// ScriptFor converts a by-id script into a by-instance script over all instances.
func ScriptFor(x *model.Exec, byID map[string]nodes.Behav) map[*nodes.N]nodes.Behav {
	m := map[*nodes.N]nodes.Behav{}
	for _, n := range x.All {
		if b, ok := byID[n.ID]; ok {
			m[n] = b
		}
	}
	return m
}
