// Package fsx drives eventlogger.FileSink with generated operation sequences
// and checks, after every step, the C08 rule (the files, read oldest to newest,
// are exactly the acknowledged events) and the C15 rules (rotation trigger,
// naming, mode, retention) on directory snapshots.
package fsx

import (
	"bytes"
	"context"
	"fmt"
	"math"
	"os"
	"path/filepath"
	"sort"
	"strconv"
	"strings"
	"time"

	"github.com/hashicorp/eventlogger"
)

type Cfg struct {
	MaxBytes  int
	MaxFiles  int
	MaxDurMs  int
	TSOnly    bool
	Mode      uint32
	FileName  string
	Custom    bool // custom format name instead of the default
	HugeDur   int  `json:",omitempty"` // with MaxDurMs == 0: 1 = MaxDuration is the largest Duration ("never"), 2 = 250 years; such a limit is never reached
	DevShm    bool `json:",omitempty"` // put the log directory under /dev/shm (a real directory whose path starts with /dev/) when that is writable
	FmtKind   int  `json:",omitempty"` // which custom name: 0 "custom-format", 1 "JSON", 2 "text ", 3 " json", 4 "Custom-Format"
	NestedDir bool
}

func (c Cfg) String() string {
	return fmt.Sprintf("cfg{MaxBytes=%d MaxFiles=%d MaxDuration=%dms TSOnly=%v Mode=%#o File=%q custom=%v(%d) nested=%v devShm=%v hugeDuration=%d}", c.MaxBytes, c.MaxFiles, c.MaxDurMs, c.TSOnly, c.Mode, c.FileName, c.Custom, c.FmtKind, c.NestedDir, c.DevShm, c.HugeDur)
}

type Op struct {
	K        string // write reopen rename pause foreign touch restart restart+reopen reopen+idle restart+reopen+idle wipe+reopen
	Data     []byte
	PauseMs  int
	NoFormat bool
}

func (o Op) String() string {
	switch o.K {
	case "write":
		if o.NoFormat {
			return "write(unformatted)"
		}
		return fmt.Sprintf("write(%dB)", len(o.Data))
	case "pause":
		return fmt.Sprintf("pause(%dms)", o.PauseMs)
	}
	return o.K
}

func Describe(c Cfg, ops []Op) string {
	s := make([]string, len(ops))
	for i, o := range ops {
		s[i] = o.String()
	}
	return c.String() + " " + strings.Join(s, " ")
}

type rec struct {
	name    string
	key     int64
	content []byte
	order   int
	removed bool
	moved   bool
	mode    os.FileMode
}

type Summary struct {
	Rotations             int
	SizeRotations         int
	TimeRotations         int
	Pruned                int
	Reopens               int
	Renames               int
	Boundary              int // rotation decided with bytesSinceOpen == MaxBytes exactly
	UncertainTime         int
	CertainTimeRot        int
	CertainTimeNoRot      int
	WriteErrors           int
	Acked                 int
	Restarts              int
	Touches               int
	IdleAfterReopen       int
	PrunedOutsideRotation int
	Wipes                 int
}

// Violation carries the property it belongs to.
type Violation struct {
	Prop string
	Msg  string
}

type Runner struct {
	Cfg      Cfg
	Dir      string
	Sink     *eventlogger.FileSink
	format   string
	base     string
	ext      string
	recs     []*rec
	foreign  map[string]bool
	stream   []byte
	norder   int
	nmoved   int
	nforeign int
	nwrites  int
	isOpen   bool // the sink certainly holds an open file
	unsure   bool // after an error: open state unknown
	since    int  // bytes acknowledged since the file was opened
	openLo   time.Time
	openHi   time.Time
	active   *rec
	extRen   bool // active file was renamed externally and not reopened yet
	Sum      Summary
}

func NewRunner(root string, c Cfg) *Runner {
	dir := filepath.Join(root, "logs")
	if c.NestedDir {
		dir = filepath.Join(root, "a", "b", "logs")
	} else {
		_ = os.MkdirAll(dir, 0o755)
	}
	r := &Runner{Cfg: c, Dir: dir, foreign: map[string]bool{}}
	r.format = eventlogger.JSONFormat
	s := &eventlogger.FileSink{Path: dir, FileName: c.FileName, Mode: os.FileMode(c.Mode), MaxBytes: c.MaxBytes, MaxFiles: c.MaxFiles,
		MaxDuration: time.Duration(c.MaxDurMs) * time.Millisecond, TimestampOnlyOnRotate: c.TSOnly}
	if c.MaxDurMs == 0 && c.HugeDur == 1 {
		s.MaxDuration = time.Duration(math.MaxInt64)
	} else if c.MaxDurMs == 0 && c.HugeDur == 2 {
		s.MaxDuration = 250 * 365 * 24 * time.Hour
	}
	if c.Custom {
		// format names are exact strings: some are equal to a common name only after trimming or case folding
		r.format = [...]string{"custom-format", "JSON", "text ", " json", "Custom-Format"}[c.FmtKind%5]
		s.Format = r.format
	}
	r.Sink = s
	r.ext = filepath.Ext(c.FileName)
	if r.ext == "" {
		r.ext = ".log"
	}
	r.base = strings.TrimSuffix(c.FileName, r.ext)
	return r
}

func (r *Runner) rotateEnabled() bool {
	return r.Cfg.MaxBytes > 0 || r.Cfg.MaxDurMs != 0 || r.Cfg.HugeDur != 0 // a huge MaxDuration is a configured limit too (it is just never reached)
}

// patternTS returns the timestamp of a rotated-file name, ok=false otherwise.
func (r *Runner) patternTS(name string) (int64, bool) {
	if !strings.HasPrefix(name, r.base+"-") || !strings.HasSuffix(name, r.ext) {
		return 0, false
	}
	mid := name[len(r.base)+1 : len(name)-len(r.ext)]
	if mid == "" {
		return 0, false
	}
	for _, ch := range mid {
		if ch < '0' || ch > '9' {
			return 0, false
		}
	}
	v, err := strconv.ParseInt(mid, 10, 64)
	if err != nil {
		return 0, false
	}
	return v, true
}

func (r *Runner) list() (map[string][]byte, map[string]os.FileMode, error) {
	out := map[string][]byte{}
	modes := map[string]os.FileMode{}
	ents, err := os.ReadDir(r.Dir)
	if err != nil {
		if os.IsNotExist(err) {
			return out, modes, nil
		}
		return nil, nil, err
	}
	for _, e := range ents {
		if e.IsDir() || r.foreign[e.Name()] {
			continue
		}
		b, err := os.ReadFile(filepath.Join(r.Dir, e.Name()))
		if err != nil {
			return nil, nil, err
		}
		out[e.Name()] = b
		if fi, err := e.Info(); err == nil {
			modes[e.Name()] = fi.Mode().Perm()
		}
	}
	return out, modes, nil
}

func (r *Runner) find(name string) *rec {
	for _, x := range r.recs {
		if !x.removed && x.name == name {
			return x
		}
	}
	return nil
}

// reconcile updates the records from a directory listing. Returns the records
// created and removed in this step.
func (r *Runner) reconcile(cur map[string][]byte, modes map[string]os.FileMode, afterWrite bool) (created, removed []*rec, v *Violation) {
	// sink rename in TSOnly mode: FileName -> base-<ts>ext with identical content
	var newNames []string
	for name := range cur {
		if r.find(name) == nil {
			newNames = append(newNames, name)
		}
	}
	// creation order within one step: timestamped files by their timestamp, then the plain active name (a slow first
	// write can open a file, rotate it at once and open the next one within a single call)
	sort.Slice(newNames, func(i, j int) bool {
		ti, oki := r.patternTS(newNames[i])
		tj, okj := r.patternTS(newNames[j])
		switch {
		case oki && okj:
			return ti < tj
		case oki != okj:
			return oki
		}
		return newNames[i] < newNames[j]
	})
	if r.Cfg.TSOnly && afterWrite {
		if old := r.find(r.Cfg.FileName); old != nil && !old.moved {
			for i, nn := range newNames {
				if ts, ok := r.patternTS(nn); ok && bytes.Equal(cur[nn], old.content) {
					// the former active file was rotated to nn
					old.name, old.key = nn, ts
					newNames = append(newNames[:i], newNames[i+1:]...)
					// whatever is called FileName now is a new file
					if _, ok := cur[r.Cfg.FileName]; ok {
						newNames = append(newNames, r.Cfg.FileName)
					}
					break
				}
			}
		}
	}
	for _, x := range r.recs {
		if x.removed {
			continue
		}
		if b, ok := cur[x.name]; ok {
			x.content = b
		} else {
			x.removed = true
			removed = append(removed, x)
		}
	}
	for _, nn := range newNames {
		if r.find(nn) != nil {
			continue
		}
		r.norder++
		x := &rec{name: nn, content: cur[nn], order: r.norder, mode: modes[nn]}
		if ts, ok := r.patternTS(nn); ok {
			x.key = ts
		} else if nn == r.Cfg.FileName {
			x.key = math.MaxInt64
		} else {
			return nil, nil, &Violation{"C15", fmt.Sprintf("the sink created a file %q outside its name space", nn)}
		}
		r.recs = append(r.recs, x)
		created = append(created, x)
	}
	return created, removed, nil
}

// concat returns all records (live and removed) in age order.
func (r *Runner) ordered() []*rec {
	rs := append([]*rec(nil), r.recs...)
	sort.SliceStable(rs, func(i, j int) bool {
		if rs[i].key != rs[j].key {
			return rs[i].key < rs[j].key
		}
		return rs[i].order < rs[j].order
	})
	return rs
}

func (r *Runner) checkStream(extra []byte) (bool, bool) {
	var buf []byte
	for _, x := range r.ordered() {
		buf = append(buf, x.content...)
	}
	if bytes.Equal(buf, r.stream) {
		return true, false
	}
	if extra != nil && bytes.Equal(buf, append(append([]byte(nil), r.stream...), extra...)) {
		return true, true
	}
	return false, false
}

func (r *Runner) describeFiles() string {
	var sb strings.Builder
	for _, x := range r.ordered() {
		st := ""
		if x.removed {
			st = " (removed)"
		}
		fmt.Fprintf(&sb, "%s[%dB]%s ", x.name, len(x.content), st)
	}
	return sb.String()
}

// Step executes one operation and returns the first violation found.
func (r *Runner) Step(op Op) *Violation {
	c := r.Cfg
	switch op.K {
	case "pause":
		time.Sleep(time.Duration(op.PauseMs) * time.Millisecond)
		return nil
	case "foreign":
		r.nforeign++
		name := []string{"foreign-%d.txt", r.Cfg.FileName + ".bak%d", "zz-" + r.base + "-%d" + r.ext,
			// names that begin like the sink's rotated files but carry another extension
			r.base + "-0000-README-%d.txt", r.base + "-summary-%d.txt", r.base + "-99999999999999999999-%d.bak"}[(r.nforeign+op.PauseMs)%6]
		name = fmt.Sprintf(name, r.nforeign)
		if _, err := os.Stat(r.Dir); err != nil {
			return nil
		}
		r.foreign[name] = true
		_ = os.WriteFile(filepath.Join(r.Dir, name), []byte("foreign"), 0o644)
		return nil
	case "wipe+reopen":
		// the whole log directory is removed from outside (volume re-provisioned), then the operator signals Reopen:
		// the directory is created on demand again
		if err := os.RemoveAll(r.Dir); err != nil {
			return nil
		}
		r.recs = nil // what an outside party deleted is no longer the sink's to account for
		r.stream, r.active, r.extRen = nil, nil, false
		r.foreign = map[string]bool{}
		r.Sum.Wipes++
		if v := r.Step(Op{K: "reopen"}); v != nil {
			return v
		}
		if r.unsure {
			return &Violation{"C15", "the log directory was removed and Reopen failed instead of creating it on demand"}
		}
		return nil
	case "touch":
		// an outside process (log shipper, backup restore) touches an old rotated file: its mtime becomes the newest
		var pats []*rec
		for _, x := range r.recs {
			if _, ok := r.patternTS(x.name); ok && !x.removed && !x.moved && x != r.active {
				pats = append(pats, x)
			}
		}
		if len(pats) > 0 {
			sort.Slice(pats, func(i, j int) bool { return pats[i].key < pats[j].key })
			future := time.Now().Add(time.Hour)
			if os.Chtimes(filepath.Join(r.Dir, pats[0].name), future, future) == nil {
				r.Sum.Touches++
			}
		}
		return nil
	case "reopen+idle", "restart+reopen+idle":
		// the file is (re)opened without a write and then sits idle for longer than MaxDuration
		k := "reopen"
		if op.K != "reopen+idle" {
			k = "restart+reopen"
		}
		if v := r.Step(Op{K: k}); v != nil {
			return v
		}
		if c.MaxDurMs > 0 {
			time.Sleep(time.Duration(c.MaxDurMs+6) * time.Millisecond)
			r.Sum.IdleAfterReopen++
		}
		return nil
	case "restart", "restart+reopen":
		// the process restarts: a brand-new FileSink value with the same configuration takes over the directory
		old := r.Sink
		r.Sink = &eventlogger.FileSink{Path: old.Path, FileName: old.FileName, Mode: old.Mode, MaxBytes: old.MaxBytes, MaxFiles: old.MaxFiles,
			MaxDuration: old.MaxDuration, Format: old.Format, TimestampOnlyOnRotate: old.TimestampOnlyOnRotate}
		r.isOpen, r.unsure, r.since, r.extRen = false, false, 0, false
		r.Sum.Restarts++
		if op.K == "restart+reopen" {
			return r.Step(Op{K: "reopen"})
		}
		return nil
	case "rename":
		if r.active == nil || r.active.removed || r.extRen {
			return nil
		}
		r.nmoved++
		nn := fmt.Sprintf("moved-%d.dat", r.nmoved)
		if err := os.Rename(filepath.Join(r.Dir, r.active.name), filepath.Join(r.Dir, nn)); err != nil {
			return nil
		}
		if r.active.key == math.MaxInt64 {
			r.active.key = time.Now().UnixNano()
		}
		r.active.name, r.active.moved = nn, true
		r.extRen = true
		r.Sum.Renames++
		return nil
	case "reopen":
		tb := time.Now()
		err := r.Sink.Reopen()
		ta := time.Now()
		cur, modes, lerr := r.list()
		if lerr != nil {
			return nil
		}
		created, removed, v := r.reconcile(cur, modes, false)
		if v != nil {
			return v
		}
		r.Sum.Reopens++
		if len(removed) > 0 {
			// the statements fix what retention may take (only surplus rotated files, oldest first), not when it runs
			cand := r.active
			if len(created) > 0 {
				cand = created[len(created)-1]
			}
			if v := r.legalPrune(removed, cand, "Reopen"); v != nil {
				return v
			}
			r.Sum.PrunedOutsideRotation += len(removed)
		}
		if ok, _ := r.checkStream(nil); !ok {
			return &Violation{"C08", fmt.Sprintf("after Reopen the files no longer hold exactly the acknowledged events: %s", r.describeFiles())}
		}
		if err != nil {
			r.unsure = true
			return nil
		}
		r.isOpen, r.unsure, r.since, r.openLo, r.openHi, r.extRen = true, false, 0, tb, ta, false
		r.setActive(created)
		return r.checkNewFiles(created)
	case "write":
		ev := &eventlogger.Event{Type: "t", CreatedAt: time.Now(), Formatted: map[string][]byte{}}
		if !op.NoFormat {
			r.nwrites++
			switch r.nwrites % 3 {
			case 1: // stored through FormattedAs, then the exported table entry is rewritten directly (a redacting node)
				ev.FormattedAs(r.format, []byte("value-before-the-direct-edit"))
				ev.Formatted[r.format] = op.Data
			case 2: // stored through FormattedAs after an earlier value
				ev.FormattedAs(r.format, []byte("superseded"))
				ev.FormattedAs(r.format, op.Data)
			default:
				ev.Formatted[r.format] = op.Data
			}
		} else {
			ev.Formatted["some-other-format"] = op.Data
		}
		if folded := strings.ToLower(strings.TrimSpace(r.format)); folded != r.format {
			// another representation of the event under the folded spelling of the sink's format name
			ev.Formatted[folded] = []byte("DECOY-under-the-folded-format-name\n")
		}
		tb := time.Now()
		out, err := r.Sink.Process(context.Background(), ev)
		ta := time.Now()
		if out != nil {
			return &Violation{"C08", "FileSink.Process returned an event"}
		}
		cur, modes, lerr := r.list()
		if lerr != nil {
			return nil
		}
		wasOpen, wasUnsure, wasExtRen := r.isOpen, r.unsure, r.extRen
		created, removed, v := r.reconcile(cur, modes, true)
		if v != nil {
			return v
		}
		if err == nil {
			if op.NoFormat {
				return &Violation{"C13", "FileSink acknowledged an event that carries no bytes for its format"}
			}
			r.stream = append(r.stream, op.Data...)
			r.Sum.Acked++
			if ok, _ := r.checkStream(nil); !ok {
				return &Violation{"C08", fmt.Sprintf("acknowledged events are not exactly the file contents read oldest to newest (acked %dB): %s", len(r.stream), r.describeFiles())}
			}
		} else {
			r.Sum.WriteErrors++
			ok, present := r.checkStream(op.Data)
			if !ok {
				return &Violation{"C08", fmt.Sprintf("after a failed write the files no longer hold exactly the acknowledged events: %s", r.describeFiles())}
			}
			if present && !op.NoFormat {
				r.stream = append(r.stream, op.Data...)
			}
		}
		// ---- retention legitimacy (C08: only retention may remove; C15: which ones)
		rotated := wasOpen && !wasUnsure && len(created) > 0
		if len(removed) > 0 {
			for _, x := range removed {
				if _, isPat := r.patternTS(x.name); !isPat || x.moved {
					return &Violation{"C15", fmt.Sprintf("file %q outside the rotated-file name space (or the active file) was removed", x.name)}
				}
			}
			if c.MaxFiles == 0 {
				return &Violation{"C08", fmt.Sprintf("files %s disappeared although no retention limit is configured", names(removed))}
			}
			if len(created) == 0 && err == nil {
				if v := r.legalPrune(removed, r.active, "a write that did not rotate"); v != nil {
					return v
				}
				r.Sum.PrunedOutsideRotation += len(removed)
			}
		}
		if err != nil {
			if op.NoFormat && len(created) == 0 && len(removed) == 0 {
				return nil // rejected before touching the file: nothing changed
			}
			r.unsure = true
			r.isOpen = false
			r.setActive(created)
			return nil
		}
		if len(created) > 1 {
			// a call that itself took longer than MaxDuration may open a file and find it too old a moment later
			// (the test process was descheduled between the two): then one write legitimately leaves two files
			slow := c.MaxDurMs > 0 && ta.Sub(tb) > time.Duration(c.MaxDurMs)*time.Millisecond
			if !(slow && len(created) == 2) {
				return &Violation{"C15", fmt.Sprintf("one write created %d files: %s", len(created), names(created))}
			}
			r.Sum.UncertainTime++
			r.since, r.openLo, r.openHi, r.extRen = len(op.Data), tb, ta, false
			r.setActive(created)
			if c.TSOnly {
				if x := r.find(c.FileName); x != nil {
					r.active = x
				}
			}
			r.isOpen, r.unsure = true, false
			return nil
		}
		// ---- rotation trigger rule
		// (a sink that notices on its own that its file was renamed away and starts a new one has not "rotated":
		// the outside party did; the statements only say what happens after the following Reopen)
		replacedMoved := wasExtRen && len(created) > 0
		if replacedMoved {
			rotated = false
		}
		if wasOpen && !wasUnsure && !replacedMoved {
			sizeTrig := c.MaxBytes > 0 && r.since >= c.MaxBytes
			mustTime, mustNotTime := false, true
			if c.MaxDurMs > 0 {
				d := time.Duration(c.MaxDurMs) * time.Millisecond
				lo := tb.Sub(r.openHi) // least possible age at the check
				hi := ta.Sub(r.openLo) // greatest possible age
				mustTime = lo > d
				mustNotTime = hi <= d
			}
			switch {
			case sizeTrig || mustTime:
				if !rotated {
					if wasExtRen && c.TSOnly {
						// rotation must fail (rename of a missing file) - but then err != nil; reaching here means no rotation
					}
					return &Violation{"C15", fmt.Sprintf("write did not rotate although the active file held %dB since it was opened (MaxBytes=%d) / was certainly older than MaxDuration=%v", r.since, c.MaxBytes, mustTime)}
				}
			case !sizeTrig && mustNotTime:
				if rotated {
					return &Violation{"C15", fmt.Sprintf("write rotated although the active file held only %dB since it was opened (MaxBytes=%d) and was not older than MaxDuration (%dms)", r.since, c.MaxBytes, c.MaxDurMs)}
				}
			default:
				r.Sum.UncertainTime++
			}
			if rotated {
				r.Sum.Rotations++
				if sizeTrig {
					r.Sum.SizeRotations++
					if r.since == c.MaxBytes {
						r.Sum.Boundary++
					}
				} else {
					r.Sum.TimeRotations++
					if mustTime {
						r.Sum.CertainTimeRot++
					}
				}
			} else if c.MaxDurMs > 0 && mustNotTime {
				r.Sum.CertainTimeNoRot++
			}
		}
		if !r.rotateEnabled() && wasOpen && !wasUnsure && len(created) > 0 && !replacedMoved {
			return &Violation{"C15", fmt.Sprintf("a new file %s appeared although neither MaxBytes nor MaxDuration is set", names(created))}
		}
		// ---- retention count right after a rotation
		if rotated {
			var pat []*rec
			for _, x := range r.recs {
				if x.removed || x.moved {
					continue
				}
				if _, ok := r.patternTS(x.name); ok && !(len(created) == 1 && x == created[0]) {
					pat = append(pat, x)
				}
			}
			if c.MaxFiles > 0 {
				if len(pat) > c.MaxFiles {
					return &Violation{"C15", fmt.Sprintf("%d rotated files remain right after a rotation, MaxFiles=%d: %s", len(pat), c.MaxFiles, r.describeFiles())}
				}
				if len(removed) > 0 && len(pat) < c.MaxFiles {
					return &Violation{"C15", fmt.Sprintf("retention removed too many files: %d rotated files remain, MaxFiles=%d", len(pat), c.MaxFiles)}
				}
				for _, x := range removed {
					for _, y := range pat {
						if x.key > y.key {
							return &Violation{"C15", fmt.Sprintf("retention removed %s although the older %s was kept", x.name, y.name)}
						}
					}
				}
			}
			r.Sum.Pruned += len(removed)
		}
		if len(created) > 0 {
			r.since, r.openLo, r.openHi, r.extRen = len(op.Data), tb, ta, false
			r.setActive(created)
		} else if !wasOpen || wasUnsure {
			// opened an already existing file (e.g. plain FileName after a failed rotation)
			r.since, r.openLo, r.openHi = len(op.Data), tb, ta
			if x := r.find(r.expectedActiveName()); x != nil && !wasExtRen {
				r.active = x
			}
		} else {
			r.since += len(op.Data)
		}
		r.isOpen, r.unsure = true, false
		return r.checkNewFiles(created)
	}
	return nil
}

// legalPrune: files may disappear only through the retention limit: MaxFiles is set, every removed file is a
// rotated file of this sink (never the active file, an externally renamed segment or a foreign file), more than
// MaxFiles rotated files existed, and nothing newer than a kept rotated file was taken.
func (r *Runner) legalPrune(removed []*rec, active *rec, who string) *Violation {
	c := r.Cfg
	for _, x := range removed {
		if _, isPat := r.patternTS(x.name); !isPat || x.moved || x == active {
			return &Violation{"C15", fmt.Sprintf("%s removed %q, which is outside the rotated-file name space (or the active file)", who, x.name)}
		}
	}
	if c.MaxFiles == 0 {
		return &Violation{"C08", fmt.Sprintf("files %s disappeared (%s) although no retention limit is configured", names(removed), who)}
	}
	var pat []*rec
	for _, x := range r.recs {
		if x.removed || x.moved || x == active {
			continue
		}
		if _, ok := r.patternTS(x.name); ok {
			pat = append(pat, x)
		}
	}
	if len(pat) < c.MaxFiles {
		return &Violation{"C15", fmt.Sprintf("%s removed %s although only %d rotated files remain, MaxFiles=%d", who, names(removed), len(pat), c.MaxFiles)}
	}
	for _, x := range removed {
		for _, y := range pat {
			if x.key > y.key {
				return &Violation{"C15", fmt.Sprintf("%s removed %s although the older %s was kept", who, x.name, y.name)}
			}
		}
	}
	return nil
}

func (r *Runner) expectedActiveName() string { return r.Cfg.FileName }

func (r *Runner) setActive(created []*rec) {
	if len(created) > 0 {
		r.active = created[len(created)-1]
		return
	}
	if r.Cfg.TSOnly || !r.rotateEnabled() {
		if x := r.find(r.Cfg.FileName); x != nil {
			r.active = x
		}
	}
}

func names(rs []*rec) string {
	var s []string
	for _, x := range rs {
		s = append(s, x.name)
	}
	return "[" + strings.Join(s, " ") + "]"
}

// checkNewFiles: naming, ordering and mode rules for files the sink just created.
func (r *Runner) checkNewFiles(created []*rec) *Violation {
	c := r.Cfg
	want := os.FileMode(c.Mode)
	if want == 0 {
		want = 0o600
	}
	for _, x := range created {
		if x.mode != want {
			return &Violation{"C15", fmt.Sprintf("file %s created with mode %#o, configured %#o", x.name, x.mode, want)}
		}
		ts, isPat := r.patternTS(x.name)
		switch {
		case c.TSOnly || !r.rotateEnabled():
			if x.name != c.FileName {
				return &Violation{"C15", fmt.Sprintf("the active file is %q, it must have the plain configured name %q", x.name, c.FileName)}
			}
		default:
			if !isPat {
				return &Violation{"C15", fmt.Sprintf("the active file %q does not carry a timestamp although rotation is enabled", x.name)}
			}
		}
		if isPat {
			for _, y := range r.recs {
				if y == x || y.order > x.order {
					continue
				}
				if yts, ok := r.patternTS(y.name); ok && !y.moved && yts >= ts && y.order < x.order {
					return &Violation{"C15", fmt.Sprintf("timestamps do not increase with creation order: %s created after %s", x.name, y.name)}
				}
			}
		}
	}
	// rotated names in TSOnly mode: every rotated (non-active) record's timestamp increases with its creation order
	var pats []*rec
	for _, x := range r.recs {
		if _, ok := r.patternTS(x.name); ok && !x.moved {
			pats = append(pats, x)
		}
	}
	sort.Slice(pats, func(i, j int) bool { return pats[i].order < pats[j].order })
	for i := 1; i < len(pats); i++ {
		if pats[i].key <= pats[i-1].key {
			return &Violation{"C15", fmt.Sprintf("rotated file timestamps are not strictly increasing: %s then %s", pats[i-1].name, pats[i].name)}
		}
	}
	return nil
}

// Final checks foreign files and externally renamed segments are still there.
func (r *Runner) Final() *Violation {
	for name := range r.foreign {
		if _, err := os.Stat(filepath.Join(r.Dir, name)); err != nil {
			return &Violation{"C15", fmt.Sprintf("foreign file %q was removed", name)}
		}
	}
	for _, x := range r.recs {
		if x.moved && x.removed {
			return &Violation{"C15", fmt.Sprintf("externally renamed segment %q was removed", x.name)}
		}
	}
	return nil
}
