package fsx

import (
	"fmt"
	"math"
	"os"

	"pgregory.net/rapid"
)

func GenCfg(t *rapid.T) Cfg {
	return Cfg{
		MaxBytes:  rapid.SampledFrom([]int{0, 0, 1, 17, 64, 100, 150, 300}).Draw(t, "maxBytes"),
		MaxFiles:  rapid.SampledFrom([]int{0, 1, 2, 3, 0, 1, 2, 3, 1000, math.MaxInt32, math.MaxInt}).Draw(t, "maxFiles"),
		MaxDurMs:  rapid.SampledFrom([]int{0, 0, 0, 30}).Draw(t, "maxDurMs"),
		TSOnly:    rapid.Bool().Draw(t, "tsOnly"),
		Mode:      rapid.SampledFrom([]uint32{0, 0o640, 0o600}).Draw(t, "mode"),
		FileName:  rapid.SampledFrom([]string{"ev.log", "ev", "audit.json", "a.b.c", "audit.log.log", "a.b.b", ".hidden", "x.tar.gz"}).Draw(t, "fileName"),
		Custom:    rapid.IntRange(0, 3).Draw(t, "custom") == 0,
		FmtKind:   rapid.IntRange(0, 4).Draw(t, "customFormatName"),
		NestedDir: rapid.Bool().Draw(t, "nested"),
		DevShm:    rapid.IntRange(0, 5).Draw(t, "devShm") == 0,
		HugeDur:   rapid.SampledFrom([]int{0, 0, 0, 1, 2}).Draw(t, "hugeMaxDuration"),
	}
}

func GenOps(t *rapid.T, max int, pauses bool) []Op {
	kinds := []string{"write", "write", "write", "write", "write", "write", "write", "write", "write", "write", "write", "write", "reopen", "reopen", "rename", "foreign", "nofmt", "touch", "restart", "restart+reopen", "reopen+idle", "restart+reopen+idle", "wipe+reopen"}
	if pauses {
		kinds = append(kinds, "pause")
	}
	g := rapid.Custom(func(t *rapid.T) Op {
		switch k := rapid.SampledFrom(kinds).Draw(t, "k"); k {
		case "write":
			n := rapid.SampledFrom([]int{1, 2, 5, 17, 33, 64, 100, 199, 200, 0}).Draw(t, "len")
			if n == 0 {
				n = rapid.IntRange(1, 200).Draw(t, "lenAny")
			}
			return Op{K: "write", Data: rapid.SliceOfN(rapid.Byte(), n, n).Draw(t, "data")}
		case "nofmt":
			return Op{K: "write", NoFormat: true, Data: []byte("x")}
		case "foreign":
			return Op{K: "foreign", PauseMs: rapid.IntRange(0, 5).Draw(t, "foreignName")}
		case "pause":
			return Op{K: "pause", PauseMs: rapid.SampledFrom([]int{0, 5, 20, 34, 45}).Draw(t, "ms")}
		default:
			return Op{K: k}
		}
	})
	return rapid.SliceOfN(g, 1, max).Draw(t, "ops")
}

// RunSeq executes a whole sequence in a fresh temp dir. onlyProp filters the
// violations that are reported ("" = all).
func RunSeq(c Cfg, ops []Op) (*Violation, *Runner, int) {
	base := ""
	if c.DevShm {
		if st, err := os.Stat("/dev/shm"); err == nil && st.IsDir() {
			base = "/dev/shm"
		}
	}
	root, err := os.MkdirTemp(base, "verif-fsx-")
	if err != nil && base != "" {
		root, err = os.MkdirTemp("", "verif-fsx-")
	}
	if err != nil {
		return &Violation{"infra", err.Error()}, nil, 0
	}
	defer os.RemoveAll(root)
	r := NewRunner(root, c)
	for i, op := range ops {
		if v := r.Step(op); v != nil {
			v.Msg = fmt.Sprintf("step %d (%s): %s", i, op, v.Msg)
			return v, r, i
		}
	}
	return r.Final(), r, len(ops)
}
