// Package sched is the verifPoint controller: a per-Send plan (drawn by rapid
// before the Send) decides what happens at the i-th hook hit — nothing, yield,
// sleep, or "cancel this Send's context here" — and every hit is traced.
package sched

import (
	"bytes"
	"context"
	"errors"
	"runtime"
	"strconv"
	"sync"
	"time"

	"github.com/hashicorp/eventlogger"
)

type key struct{}

// Points are the hook names inserted in graph.go.
var Points = []string{"range.root", "range.wait", "range.close", "range.exit", "collect.select",
	"node.enter", "node.returned", "status.send", "child.spawn", "node.exit"}

type Hit struct {
	G     int64
	Point string
	Seq   int
}

type Plan struct {
	Actions     []byte // action for the i-th hit (cyclic): 0 none, 1 Gosched, 2 Gosched x3, 3 sleep 20µs, 4 sleep 200µs
	CancelPoint string // "" = no hook-placed cancel
	CancelOcc   int    // cancel at the k-th (0-based) occurrence of CancelPoint
	CancelHit   int    // or: cancel at the i-th hit overall (-1 = off)
	WantGoid    bool
}

type Ctl struct {
	mu        sync.Mutex
	plan      Plan
	cancel    context.CancelFunc
	hits      int
	perPoint  map[string]int
	Trace     []Hit
	Cancelled string // point at which the hook cancelled ("" if it did not)
	CancelSeq int
}

func init() {
	eventlogger.VerifHook = func(ctx context.Context, point string) {
		if c, ok := ctx.Value(key{}).(*Ctl); ok && c != nil {
			c.hit(point)
		}
	}
}

// With returns a cancellable context carrying a controller for one Send.
func With(parent context.Context, p Plan) (context.Context, context.CancelFunc, *Ctl) {
	return WithKind(parent, p, 0)
}

// ErrCause is the custom cancellation cause used by the WithCancelCause flavour.
var ErrCause = errors.New("harness: custom cancellation cause")

// WithKind is With for a chosen context flavour: 0 WithCancel, 1 WithCancelCause (cancelled with
// ErrCause), 2 WithTimeoutCause far in the future wrapped by WithCancel, 3 a value context on top.
func WithKind(parent context.Context, p Plan, kind int) (context.Context, context.CancelFunc, *Ctl) {
	var ctx context.Context
	var cancel context.CancelFunc
	switch kind {
	case 1:
		c, cc := context.WithCancelCause(parent)
		ctx, cancel = c, func() { cc(ErrCause) }
	case 2:
		c1, c1cancel := context.WithTimeoutCause(parent, time.Hour, ErrCause)
		c, cc := context.WithCancelCause(c1)
		ctx, cancel = c, func() { cc(ErrCause); c1cancel() }
	default:
		ctx, cancel = context.WithCancel(parent)
	}
	c := &Ctl{plan: p, cancel: cancel, perPoint: map[string]int{}}
	ctx = context.WithValue(ctx, key{}, c)
	if kind == 3 {
		ctx = context.WithValue(ctx, struct{ k string }{"other"}, 1)
	}
	return ctx, cancel, c
}

func goid() int64 {
	var buf [64]byte
	n := runtime.Stack(buf[:], false)
	b := buf[:n]
	b = bytes.TrimPrefix(b, []byte("goroutine "))
	i := bytes.IndexByte(b, ' ')
	if i < 0 {
		return -1
	}
	v, _ := strconv.ParseInt(string(b[:i]), 10, 64)
	return v
}

func (c *Ctl) hit(point string) {
	var g int64
	if c.plan.WantGoid {
		g = goid()
	}
	c.mu.Lock()
	i := c.hits
	c.hits++
	k := c.perPoint[point]
	c.perPoint[point] = k + 1
	c.Trace = append(c.Trace, Hit{G: g, Point: point, Seq: i})
	doCancel := c.Cancelled == "" && ((c.plan.CancelPoint == point && c.plan.CancelOcc == k) || (c.plan.CancelHit >= 0 && c.plan.CancelPoint == "" && c.plan.CancelHit == i))
	if doCancel {
		c.Cancelled = point
		c.CancelSeq = i
	}
	var act byte
	if n := len(c.plan.Actions); n > 0 {
		act = c.plan.Actions[i%n]
	}
	c.mu.Unlock()
	if doCancel {
		c.cancel()
	}
	switch act {
	case 1:
		runtime.Gosched()
	case 2:
		runtime.Gosched()
		runtime.Gosched()
		runtime.Gosched()
	case 3:
		time.Sleep(20 * time.Microsecond)
	case 4:
		time.Sleep(200 * time.Microsecond)
	}
}

// Snapshot returns a copy of the trace.
func (c *Ctl) Snapshot() ([]Hit, string) {
	c.mu.Lock()
	defer c.mu.Unlock()
	return append([]Hit(nil), c.Trace...), c.Cancelled
}

// WaitPoint polls until the trace contains point (true) or d elapsed (false).
func WaitPoint(c *Ctl, point string, d time.Duration) bool {
	deadline := time.Now().Add(d)
	for i := 0; ; i++ {
		c.mu.Lock()
		n := c.perPoint[point]
		c.mu.Unlock()
		if n > 0 {
			return true
		}
		if time.Now().After(deadline) {
			return false
		}
		if i < 200 {
			runtime.Gosched()
		} else {
			time.Sleep(50 * time.Microsecond)
		}
	}
}
