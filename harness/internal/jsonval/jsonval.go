// Package jsonval generates JSON-encodable (and deliberately unencodable)
// payload descriptions; Build turns a description into a fresh Go value, so
// building twice yields two deep-equal, non-aliased twins.
package jsonval

import (
	"encoding/json"
	"fmt"
	"io/fs"
	"math"
	"strings"
	"syscall"
	"time"

	"pgregory.net/rapid"
)

type Desc struct {
	K    string
	S    string
	B    []byte
	I    int64
	U    uint64
	F    float64
	Bo   bool
	Kids []Desc
	Keys []string
	T    time.Time
}

type Tagged struct {
	Name    string                 `json:"name"`
	Skip    string                 `json:"-"`
	Opt     string                 `json:"opt,omitempty"`
	Num     int64                  `json:"num,string"`
	Nested  *Tagged                `json:"nested,omitempty"`
	Any     interface{}            `json:"any"`
	M       map[string]interface{} `json:"m,omitempty"`
	private int
}

// ErrStruct is a structured value (exported fields) that also implements error, like a validation or quota-denial record.
type ErrStruct struct {
	Code   int64             `json:"code"`
	Msg    string            `json:"msg"`
	Fields map[string]string `json:"fields"`
}

func (e ErrStruct) Error() string { return "error " + e.Msg }

type Embedded struct {
	Tagged
	Extra []interface{} `json:"extra"`
}

var hostile = []string{"", "plain", "line\nbreak", "tab\there", "quote\"back\\slash", "<script>&amp;</script>", "  ", "\x00\x01\x1f", "bad\xff\xfeutf8", "ünïcödé ☃ 😀", "\r\n", strings.Repeat("long", 50)}

func genString(t *rapid.T, label string) string {
	if rapid.IntRange(0, 2).Draw(t, label+"?") == 0 {
		return rapid.SampledFrom(hostile).Draw(t, label+"h")
	}
	return string(rapid.SliceOfN(rapid.Byte(), 0, 12).Draw(t, label+"b"))
}

// Gen draws a description. unenc enables unencodable leaves.
func Gen(t *rapid.T, depth int, unenc bool) Desc {
	kinds := []string{"null", "bool", "int", "uint", "float", "string", "string", "bytes", "number", "time", "intkeymap", "rawmsg", "errstruct", "patherror"}
	if depth > 0 {
		kinds = append(kinds, "map", "map", "slice", "slice", "struct", "embedded", "ptr")
	}
	if unenc {
		kinds = append(kinds, "nan", "inf", "chan", "func", "complex", "badnumber", "badraw")
	}
	k := rapid.SampledFrom(kinds).Draw(t, "kind")
	d := Desc{K: k}
	switch k {
	case "bool":
		d.Bo = rapid.Bool().Draw(t, "bo")
	case "int":
		d.I = rapid.SampledFrom([]int64{0, -1, 1, math.MaxInt64, math.MinInt64, 1 << 53, (1 << 53) + 1, 42}).Draw(t, "i")
	case "uint":
		d.U = rapid.SampledFrom([]uint64{0, 1, math.MaxUint64, 1 << 63, 7}).Draw(t, "u")
	case "float":
		d.F = rapid.SampledFrom([]float64{0, math.Copysign(0, -1), 1.5, -2.25, 1e21, 1e-7, math.SmallestNonzeroFloat64, math.MaxFloat64, 0.1, 123456789.125}).Draw(t, "f")
	case "string":
		d.S = genString(t, "s")
	case "bytes":
		d.B = rapid.SliceOfN(rapid.Byte(), 0, 16).Draw(t, "by")
		if rapid.IntRange(0, 3).Draw(t, "jsonText") == 0 {
			// bytes that happen to hold a complete JSON document are bytes all the same (their JSON image is base64 text)
			d.B = []byte(rapid.SampledFrom([]string{`{"a":1}`, `[1,2,3]`, `{"nested":{"k":["v"]}}`, `[]`, `{}`, `"str"`, `null`, `12`, `true`, ` {"lead":"space"}`}).Draw(t, "jsonBytes"))
		}
	case "number":
		d.S = rapid.SampledFrom([]string{"0", "-1", "1e400", "123456789012345678901234567890", "0.1", "-0"}).Draw(t, "num")
	case "badnumber":
		d.S = rapid.SampledFrom([]string{"abc", "1..2", "--1"}).Draw(t, "badnum")
	case "rawmsg":
		// valid JSON text handed over as json.RawMessage, as produced by json.MarshalIndent or read from a file: insignificant
		// white space including line breaks
		d.S = rapid.SampledFrom([]string{`{"a":1}`, "{\n  \"a\": 1,\n  \"b\": [\n    1,\n    2\n  ]\n}", " [1 , 2]\n", "\t{\"k\":\"v\"}\r\n", `"str"`, "null", "\n\n12\n", "{\"s\":\"line\\nbreak inside a string\"}"}).Draw(t, "raw")
	case "badraw":
		d.S = rapid.SampledFrom([]string{`{bad`, ``, `{"a":1}}`, "[1,\n"}).Draw(t, "badraw")
	case "errstruct":
		d.S = genString(t, "msg")
		d.I = rapid.Int64Range(-3, 500).Draw(t, "code")
		d.Bo = rapid.Bool().Draw(t, "byPointer")
	case "time":
		off := rapid.SampledFrom([]int{0, 3600, -7 * 3600, 5*3600 + 1800}).Draw(t, "zone")
		d.T = time.Date(rapid.IntRange(1, 9999).Draw(t, "yr"), 6, 15, 12, 30, 45, rapid.IntRange(0, 999999999).Draw(t, "ns"), time.FixedZone("z", off))
	case "map", "intkeymap":
		n := rapid.IntRange(0, 3).Draw(t, "n")
		if depth <= 0 {
			n = 0
		}
		for i := 0; i < n; i++ {
			d.Keys = append(d.Keys, genString(t, fmt.Sprintf("key%d", i)))
			d.Kids = append(d.Kids, Gen(t, depth-1, unenc))
		}
	case "slice":
		n := rapid.IntRange(0, 3).Draw(t, "n")
		for i := 0; i < n; i++ {
			d.Kids = append(d.Kids, Gen(t, depth-1, unenc))
		}
	case "struct", "embedded":
		d.S = genString(t, "name")
		d.I = rapid.Int64().Draw(t, "num")
		d.Bo = rapid.Bool().Draw(t, "opt")
		d.Kids = []Desc{Gen(t, depth-1, unenc), Gen(t, depth-1, unenc)}
	case "ptr":
		d.Kids = []Desc{Gen(t, depth-1, unenc)}
	}
	return d
}

// Encodable reports whether encoding/json can encode the value (decided on a
// fresh twin, because some description children are not materialised).
func Encodable(d Desc) bool {
	_, err := json.Marshal(Build(d))
	return err == nil
}

func (d Desc) HasHostile() bool {
	if d.K == "string" || d.K == "struct" || d.K == "embedded" {
		for _, h := range hostile[2:9] {
			if d.S == h {
				return true
			}
		}
	}
	for _, k := range d.Keys {
		for _, h := range hostile[2:9] {
			if k == h {
				return true
			}
		}
	}
	for _, k := range d.Kids {
		if k.HasHostile() {
			return true
		}
	}
	return false
}

func (d Desc) Depth() int {
	m := 0
	for _, k := range d.Kids {
		if x := k.Depth(); x > m {
			m = x
		}
	}
	if len(d.Kids) > 0 {
		return m + 1
	}
	return 0
}

func (d Desc) String() string {
	switch d.K {
	case "string":
		return fmt.Sprintf("%q", d.S)
	case "int":
		return fmt.Sprint(d.I)
	case "uint":
		return fmt.Sprint(d.U)
	case "float":
		return fmt.Sprint(d.F)
	case "bytes":
		return fmt.Sprintf("bytes(%d)", len(d.B))
	case "number", "badnumber":
		return "Number(" + d.S + ")"
	case "rawmsg", "badraw":
		return fmt.Sprintf("RawMessage(%q)", d.S)
	case "errstruct":
		return fmt.Sprintf("errstruct(%d,%q,ptr=%v)", d.I, d.S, d.Bo)
	case "map", "intkeymap":
		var p []string
		for i, k := range d.Keys {
			p = append(p, fmt.Sprintf("%q:%s", k, d.Kids[i]))
		}
		return d.K + "{" + strings.Join(p, ",") + "}"
	case "slice", "ptr", "struct", "embedded":
		var p []string
		for _, k := range d.Kids {
			p = append(p, k.String())
		}
		return d.K + "[" + strings.Join(p, ",") + "]"
	case "bool":
		return fmt.Sprint(d.Bo)
	case "time":
		return d.T.Format(time.RFC3339Nano)
	}
	return d.K
}

// Build creates a fresh Go value.
func Build(d Desc) interface{} {
	switch d.K {
	case "null":
		return nil
	case "bool":
		return d.Bo
	case "int":
		return d.I
	case "uint":
		return d.U
	case "float":
		return d.F
	case "string":
		return d.S
	case "bytes":
		return append([]byte(nil), d.B...)
	case "number", "badnumber":
		return json.Number(d.S)
	case "rawmsg", "badraw":
		return json.RawMessage(d.S)
	case "errstruct":
		if d.Bo {
			return &ErrStruct{Code: d.I, Msg: d.S, Fields: map[string]string{"path": "/x"}}
		}
		return ErrStruct{Code: d.I, Msg: d.S, Fields: map[string]string{"path": "/x"}}
	case "patherror":
		return &fs.PathError{Op: "open", Path: "/var/log/audit.log", Err: syscall.ENOENT}
	case "time":
		return d.T
	case "map":
		m := map[string]interface{}{}
		for i, k := range d.Keys {
			m[k] = Build(d.Kids[i])
		}
		return m
	case "intkeymap":
		m := map[int]interface{}{}
		for i := range d.Keys {
			m[i*7-3] = Build(d.Kids[i])
		}
		return m
	case "slice":
		s := make([]interface{}, 0, len(d.Kids))
		for _, k := range d.Kids {
			s = append(s, Build(k))
		}
		return s
	case "struct":
		return buildTagged(d)
	case "embedded":
		return Embedded{Tagged: *buildTagged(d), Extra: []interface{}{Build(d.Kids[1])}}
	case "ptr":
		v := Build(d.Kids[0])
		return &v
	case "nan":
		return math.NaN()
	case "inf":
		return math.Inf(-1)
	case "chan":
		return make(chan int)
	case "func":
		return func() {}
	case "complex":
		return complex(1, 2)
	}
	return nil
}

func buildTagged(d Desc) *Tagged {
	t := &Tagged{Name: d.S, Skip: "skipped", Num: d.I, Any: Build(d.Kids[0]), private: 7}
	if d.Bo {
		t.Opt = "set"
		t.Nested = &Tagged{Name: "inner", Any: Build(d.Kids[1])}
		t.M = map[string]interface{}{"k": Build(d.Kids[1])}
	}
	return t
}
