// Package cryptoref is the independent reference for what encrypt.Filter's
// protected values must be: AES-256-GCM decryption of "encrypted:" values and
// HKDF-SHA256 -> HMAC-SHA256 recomputation of "hmac-sha256:" values, from key
// bytes the harness knows.  It shares no code with the filter; the trusted base
// is Go's crypto primitives, x/crypto/hkdf and protobuf decoding of BlobInfo.
package cryptoref

import (
	"bytes"
	"context"
	"crypto/aes"
	"crypto/cipher"
	"crypto/ed25519"
	"crypto/hmac"
	"crypto/sha256"
	"encoding/base64"
	"errors"
	"fmt"
	"io"
	"strings"

	wrapping "github.com/hashicorp/go-kms-wrapping/v2"
	"github.com/hashicorp/go-kms-wrapping/v2/aead"
	"golang.org/x/crypto/hkdf"
	"google.golang.org/protobuf/proto"
)

// Key is a wrapper key the harness knows.
type Key struct {
	ID    string
	Bytes []byte // 32 bytes
}

// NewKey derives deterministic key bytes from a small seed.
func NewKey(seed int) Key {
	h := sha256.Sum256([]byte(fmt.Sprintf("verif-key-%d", seed)))
	return Key{ID: fmt.Sprintf("key-%d", seed), Bytes: h[:]}
}

// Wrapper builds the library wrapper for the key.
func (k Key) Wrapper() *aead.Wrapper {
	w := aead.NewWrapper()
	_, _ = w.SetConfig(context.Background(), wrapping.WithKeyId(k.ID))
	_ = w.SetAesGcmKeyBytes(k.Bytes)
	return w
}

// Decrypt opens an "encrypted:..." value under raw key bytes.
func Decrypt(key []byte, value string) ([]byte, string, error) {
	if !strings.HasPrefix(value, "encrypted:") {
		return nil, "", errors.New("missing encrypted: prefix")
	}
	raw, err := base64.RawURLEncoding.DecodeString(strings.TrimPrefix(value, "encrypted:"))
	if err != nil {
		return nil, "", fmt.Errorf("not raw-url base64: %w", err)
	}
	var blob wrapping.BlobInfo
	if err := proto.Unmarshal(raw, &blob); err != nil {
		return nil, "", fmt.Errorf("not a BlobInfo: %w", err)
	}
	if len(blob.Ciphertext) < 12+16 {
		return nil, "", fmt.Errorf("ciphertext too short (%d)", len(blob.Ciphertext))
	}
	blk, err := aes.NewCipher(key)
	if err != nil {
		return nil, "", err
	}
	g, err := cipher.NewGCM(blk)
	if err != nil {
		return nil, "", err
	}
	pt, err := g.Open(nil, blob.Ciphertext[:12], blob.Ciphertext[12:], nil)
	if err != nil {
		return nil, "", err
	}
	kid := ""
	if blob.KeyInfo != nil {
		kid = blob.KeyInfo.KeyId
	}
	if pt == nil {
		pt = []byte{}
	}
	return pt, kid, nil
}

// HMAC is the reference digest string.
func HMAC(key, salt, info, data []byte) string {
	r := hkdf.New(sha256.New, key, salt, info)
	dk := make([]byte, 32)
	_, _ = io.ReadFull(r, dk)
	m := hmac.New(sha256.New, dk)
	m.Write(data)
	return "hmac-sha256:" + base64.RawURLEncoding.EncodeToString(m.Sum(nil))
}

// EventKey derives the per-event wrapper key: HKDF(base, salt=eventID) -> 32 byte
// seed -> ed25519 key pair; the *public* key bytes are the AES key (that is what
// taking the first result of ed25519.GenerateKey yields).
func EventKey(base []byte, eventID string) []byte {
	r := hkdf.New(sha256.New, base, []byte(eventID), nil)
	seed := make([]byte, 32)
	_, _ = io.ReadFull(r, seed)
	priv := ed25519.NewKeyFromSeed(seed)
	pub := priv.Public().(ed25519.PublicKey)
	return bytes.Clone(pub)
}
