package gatedh

import (
	"fmt"
	"sort"
	"time"
)

func eqInts(a, b []int) bool {
	if len(a) != len(b) {
		return false
	}
	for i := range a {
		if a[i] != b[i] {
			return false
		}
	}
	return true
}

// ---------------------------------------------------------------------------
// C11: partition validity of every ComposeFrom argument list, exactly-once.

type c11id struct {
	toks []int
	at   []time.Time
	ex   []time.Duration // Expiration in force when the event was accepted (a group's expiry uses its first event's)
	cuts map[int]bool    // index c: tokens before c may legitimately have been discarded
}

type C11Summary struct {
	MaxOpen       int
	Flushes       int // own-group composes triggered by a flush event
	Expiries      int // composes of other groups during Process
	FlushAllComps int
	Discards      int
	Errors        int
}

// block reports whether L is the open group of id (from the start or from one
// of the optional cut points), and returns the start index.
func (s *c11id) block(L []int) (int, bool) {
	if len(L) == 0 {
		return 0, false
	}
	cands := []int{0}
	for c := range s.cuts {
		cands = append(cands, c)
	}
	sort.Ints(cands)
	for _, c := range cands {
		if c <= len(s.toks) && eqInts(s.toks[c:], L) {
			return c, true
		}
	}
	return 0, false
}

func (s *c11id) close() { s.toks, s.at, s.ex, s.cuts = nil, nil, nil, map[int]bool{} }

// CheckC11 returns "" when the observations satisfy property C11.
func CheckC11(o *Obs) (string, C11Summary) {
	var sum C11Summary
	st := map[string]*c11id{}
	get := func(id string) *c11id {
		if s, ok := st[id]; ok {
			return s
		}
		s := &c11id{cuts: map[int]bool{}}
		st[id] = s
		return s
	}
	countOpen := func() int {
		n := 0
		for _, s := range st {
			if len(s.toks) > 0 {
				n++
			}
		}
		return n
	}
	sameID := func(c ComposeCall) (string, bool) {
		if len(c.IDs) == 0 {
			return "", false
		}
		for _, x := range c.IDs {
			if x != c.IDs[0] {
				return "", false
			}
		}
		return c.IDs[0], true
	}
	// checks the emission that must follow a compose of a group handled by expiry / FlushAll
	checkEmission := func(i int, oo *OpObs, k int, c ComposeCall, sendIdx *int) string {
		// Error propagation is not part of the statement: a failed composition just means
		// this group is (legitimately) discarded and nothing may be sent for it.
		if c.Err || c.Gateable {
			return ""
		}
		if !oo.BrokerSet {
			return ""
		}
		if *sendIdx >= len(oo.Sends) {
			return fmt.Sprintf("op %d: group %v composed with a Broker configured but never sent", i, c.Toks)
		}
		s := oo.Sends[*sendIdx]
		*sendIdx++
		if !eqInts(s.Toks, c.Toks) {
			return fmt.Sprintf("op %d: sent composite %v does not match composed group %v", i, s.Toks, c.Toks)
		}
		return ""
	}

	for i := range o.Ops {
		oo := &o.Ops[i]
		for _, s := range oo.Sends {
			if s.Gateable {
				return fmt.Sprintf("op %d: a Gateable composite was sent through the Broker", i), sum
			}
			if s.Foreign {
				return fmt.Sprintf("op %d: foreign payload sent through the Broker", i), sum
			}
		}
		switch oo.Op.K {
		case OpNonGate:
			if oo.Err != nil || !oo.RetSame {
				return fmt.Sprintf("op %d: non-Gateable event not passed through unchanged (err=%v)", i, oo.Err), sum
			}
			if len(oo.Composes)+len(oo.Sends) != 0 {
				return fmt.Sprintf("op %d: non-Gateable event triggered composition", i), sum
			}
		case OpEv:
			if oo.Op.ID == "" {
				if oo.Err == nil {
					return fmt.Sprintf("op %d: event without ID accepted", i), sum
				}
				if !oo.RetNil {
					return fmt.Sprintf("op %d: event without ID forwarded", i), sum
				}
				if len(oo.Composes)+len(oo.Sends) != 0 {
					return fmt.Sprintf("op %d: event without ID triggered composition", i), sum
				}
				continue
			}
			x := oo.Op.ID
			consumed := false
			ownComposed := false
			justified := false
			sendIdx := 0
			// groups that may be dropped silently (no Broker) at this Process: record cut points
			// BEFORE the incoming event is appended.
			if !oo.BrokerSet {
				for _, s := range st {
					if len(s.toks) == 0 {
						continue
					}
					// exp of the group under every admissible start; lenient: T >= exp
					starts := []int{0}
					for c := range s.cuts {
						if c < len(s.toks) {
							starts = append(starts, c)
						}
					}
					for _, c := range starts {
						if !oo.T.Before(s.at[c].Add(s.ex[c])) {
							s.cuts[len(s.toks)] = true
							sum.Discards++
							break
						}
					}
				}
			}
			for k, c := range oo.Composes {
				id, ok := sameID(c)
				if !ok {
					return fmt.Sprintf("op %d: ComposeFrom got events of mixed/unknown ids %v %v", i, c.IDs, c.Toks), sum
				}
				containsOwn := len(c.Toks) > 0 && c.Toks[len(c.Toks)-1] == oo.Tok
				for _, t := range c.Toks[:max(0, len(c.Toks)-1)] {
					if t == oo.Tok {
						return fmt.Sprintf("op %d: incoming event is not the last element of its run %v", i, c.Toks), sum
					}
				}
				s := get(id)
				if containsOwn {
					if id != x {
						return fmt.Sprintf("op %d: incoming event composed under id %q", i, id), sum
					}
					prev := c.Toks[:len(c.Toks)-1]
					start := 0
					if len(prev) > 0 {
						var ok bool
						if start, ok = s.block(prev); !ok {
							return fmt.Sprintf("op %d: run %v is not the open group of %q (open=%v)", i, c.Toks, id, s.toks), sum
						}
					} else if len(s.toks) > 0 && !s.cuts[len(s.toks)] {
						return fmt.Sprintf("op %d: run %v drops the open group %v of %q", i, c.Toks, s.toks, id), sum
					}
					if k != len(oo.Composes)-1 {
						return fmt.Sprintf("op %d: composition continued after the incoming event's own run", i), sum
					}
					consumed = true
					if oo.Op.Flush {
						ownComposed = true
						sum.Flushes++
						switch {
						case c.Err:
							justified = true // the group is legitimately discarded; how that is reported is not specified
						case c.Gateable:
							justified = true // unspecified on the flush path: either outcome is accepted
						default:
							if oo.Err != nil {
								return fmt.Sprintf("op %d: flush composed fine but Process failed: %v", i, oo.Err), sum
							}
							if !oo.RetIsComp || !eqInts(oo.RetComp, c.Toks) {
								return fmt.Sprintf("op %d: flush composite not returned down the pipeline (returned %v, composed %v)", i, oo.RetComp, c.Toks), sum
							}
						}
					} else {
						// the incoming event joined a group that expires at this very call (left open by the statement)
						if len(prev) == 0 || oo.T.Before(s.at[start].Add(s.ex[start])) {
							return fmt.Sprintf("op %d: non-flush event %d composed immediately (%v) although its group has not expired", i, oo.Tok, c.Toks), sum
						}
						sum.Expiries++
						if c.Err || c.Gateable {
							justified = true
						}
						if msg := checkEmission(i, oo, k, c, &sendIdx); msg != "" {
							return msg, sum
						}
						if sendIdx > 0 && oo.Sends[sendIdx-1].Err {
							justified = true
						}
					}
					s.close()
					continue
				}
				// another group handled during this Process: must be a whole open group that has expired
				start, ok := s.block(c.Toks)
				if !ok {
					return fmt.Sprintf("op %d: composed run %v is not a whole open group of %q (open=%v)", i, c.Toks, id, s.toks), sum
				}
				if oo.T.Before(s.at[start].Add(s.ex[start])) {
					return fmt.Sprintf("op %d: group %v of %q emitted before its expiry", i, c.Toks, id), sum
				}
				sum.Expiries++
				if c.Err || c.Gateable {
					justified = true
				}
				if msg := checkEmission(i, oo, k, c, &sendIdx); msg != "" {
					return msg, sum
				}
				if sendIdx > 0 && oo.Sends[sendIdx-1].Err {
					justified = true
				}
				s.close()
			}
			if sendIdx != len(oo.Sends) {
				return fmt.Sprintf("op %d: %d composite(s) sent without a matching composition", i, len(oo.Sends)-sendIdx), sum
			}
			if oo.Err != nil {
				sum.Errors++
				if !justified && oo.Op.CtxDone {
					// a call made with a cancelled context may be refused; what it did to the gate is then unknown to
					// the model, so the rest of this history is not judged
					return "", sum
				}
				if !justified {
					return fmt.Sprintf("op %d: Process(%s) failed without a composition or send failure: %v", i, oo.Op, oo.Err), sum
				}
				if !oo.RetNil {
					return fmt.Sprintf("op %d: Process returned both an event and an error", i), sum
				}
				continue
			}
			if oo.Op.Flush {
				if !ownComposed {
					return fmt.Sprintf("op %d: flush event accepted but its group was not composed", i), sum
				}
				continue
			}
			if consumed {
				if !oo.RetNil {
					return fmt.Sprintf("op %d: gated event was also forwarded", i), sum
				}
				continue
			}
			if !oo.RetNil {
				return fmt.Sprintf("op %d: gated event was forwarded instead of withheld", i), sum
			}
			s := get(x)
			s.toks = append(s.toks, oo.Tok)
			s.at = append(s.at, oo.T)
			s.ex = append(s.ex, oo.Exp)
			if n := countOpen(); n > sum.MaxOpen {
				sum.MaxOpen = n
			}
		case OpFlushAll, OpClose:
			sendIdx := 0
			justified := false
			for k, c := range oo.Composes {
				id, ok := sameID(c)
				if !ok {
					return fmt.Sprintf("op %d: ComposeFrom got events of mixed/unknown ids %v %v", i, c.IDs, c.Toks), sum
				}
				s := get(id)
				if _, ok := s.block(c.Toks); !ok {
					return fmt.Sprintf("op %d: composed run %v is not a whole open group of %q (open=%v)", i, c.Toks, id, s.toks), sum
				}
				sum.FlushAllComps++
				if c.Err || c.Gateable {
					justified = true
				}
				if msg := checkEmission(i, oo, k, c, &sendIdx); msg != "" {
					return msg, sum
				}
				if sendIdx > 0 && oo.Sends[sendIdx-1].Err {
					justified = true
				}
				s.close()
			}
			if sendIdx != len(oo.Sends) {
				return fmt.Sprintf("op %d: %d composite(s) sent without a matching composition", i, len(oo.Sends)-sendIdx), sum
			}
			if oo.Err != nil {
				sum.Errors++
				if !justified {
					return fmt.Sprintf("op %d: %s failed without a composition or send failure: %v", i, oo.Op, oo.Err), sum
				}
			}
			if !oo.BrokerSet {
				for _, s := range st {
					if len(s.toks) > 0 {
						s.cuts[len(s.toks)] = true
						sum.Discards++
					}
				}
			}
		default:
			if len(oo.Composes)+len(oo.Sends) != 0 {
				return fmt.Sprintf("op %d: %s triggered composition", i, oo.Op), sum
			}
		}
	}
	if len(o.ProbeErrs) > 0 {
		return fmt.Sprintf("probe: unexpected errors %v", o.ProbeErrs), sum
	}
	for _, c := range o.Probe {
		id, ok := sameID(c)
		if !ok {
			return fmt.Sprintf("probe: ComposeFrom got mixed ids %v %v", c.IDs, c.Toks), sum
		}
		s := get(id)
		toks := c.Toks
		if n := len(toks); n > 0 && toks[n-1] >= ProbeTokBase {
			toks = toks[:n-1]
		}
		if len(toks) == 0 {
			if len(s.toks) > 0 && !s.cuts[len(s.toks)] {
				return fmt.Sprintf("probe: flush of %q returned nothing but %v should still be gated", id, s.toks), sum
			}
			s.close()
			continue
		}
		if _, ok := s.block(toks); !ok {
			return fmt.Sprintf("probe: run %v is not the open group of %q (open=%v)", c.Toks, id, s.toks), sum
		}
		s.close()
	}
	for id, s := range st {
		if len(s.toks) > 0 && !s.cuts[len(s.toks)] {
			return fmt.Sprintf("accepted events %v of %q were never handed to composition (lost)", s.toks, id), sum
		}
	}
	return "", sum
}

func max(a, b int) int {
	if a > b {
		return a
	}
	return b
}

// ---------------------------------------------------------------------------
// C17: nothing lingers.

type c17group struct {
	id   string
	toks []int
	exp  time.Time
}

type C17Summary struct {
	MaxOpen         int
	MaxExpiredAtOne int // most groups that had to be emitted by one Process
	MaxFlushed      int // most groups that had to be emitted by one FlushAll/Close
	Dropped         int
}

func CheckC17(o *Obs) (string, C17Summary) {
	var sum C17Summary
	var groups []*c17group // ordered by opening time
	find := func(id string) int {
		for i, g := range groups {
			if g.id == id {
				return i
			}
		}
		return -1
	}
	remove := func(i int) { groups = append(groups[:i:i], groups[i+1:]...) }
	// removeComposed drops model groups whose tokens were handed to ComposeFrom, and
	// reports a compose call that contains events the model says are gone (lingering).
	live := func(t int) bool {
		for _, g := range groups {
			for _, x := range g.toks {
				if x == t {
					return true
				}
			}
		}
		return false
	}
	lingering := func(i int, what string, cs []ComposeCall, own int) string {
		for _, c := range cs {
			for _, t := range c.Toks {
				if t == own || t >= ProbeTokBase {
					continue
				}
				if !live(t) {
					return fmt.Sprintf("%s %d: event %d (run %v) was still gated although its group had to be emitted or dropped earlier", what, i, t, c.Toks)
				}
			}
		}
		return ""
	}
	dropComposed := func(cs []ComposeCall) {
		for _, c := range cs {
			for _, t := range c.Toks {
				for gi := len(groups) - 1; gi >= 0; gi-- {
					for _, x := range groups[gi].toks {
						if x == t {
							remove(gi)
							break
						}
					}
				}
			}
		}
	}
	sentIdx := func(oo *OpObs, toks []int, from int, own int) int {
		for k := from; k < len(oo.Sends); k++ {
			s := oo.Sends[k]
			if s.Err {
				continue
			}
			if eqInts(s.Toks, toks) {
				return k
			}
			if own >= 0 && len(s.Toks) == len(toks)+1 && eqInts(s.Toks[:len(toks)], toks) && s.Toks[len(toks)] == own {
				return k
			}
		}
		return -1
	}
	for i := range o.Ops {
		oo := &o.Ops[i]
		switch oo.Op.K {
		case OpEv:
			if oo.Op.ID == "" {
				continue
			}
			if msg := lingering(i, "op", oo.Composes, oo.Tok); msg != "" {
				return msg, sum
			}
			if oo.Err != nil {
				dropComposed(oo.Composes)
				continue
			}
			// successful Process at T: every group with exp < T must be gone by now
			from := 0
			nexp := 0
			joined := false
			for gi := 0; gi < len(groups); {
				g := groups[gi]
				if !g.exp.Before(oo.T) {
					gi++
					continue
				}
				nexp++
				if oo.BrokerSet {
					own := -1
					if g.id == oo.Op.ID && !oo.Op.Flush {
						own = oo.Tok
					}
					k := sentIdx(oo, g.toks, from, own)
					if k < 0 {
						if sentIdx(oo, g.toks, 0, own) >= 0 {
							return fmt.Sprintf("op %d: expired groups were not emitted oldest first (group %v of %q)", i, g.toks, g.id), sum
						}
						return fmt.Sprintf("op %d: Process at T succeeded but group %v of %q (expired before T) was not emitted through the Broker by the time it returned", i, g.toks, g.id), sum
					}
					if own >= 0 && len(oo.Sends[k].Toks) == len(g.toks)+1 {
						joined = true
					}
					from = k + 1
				} else {
					sum.Dropped++
				}
				remove(gi)
			}
			if nexp > sum.MaxExpiredAtOne {
				sum.MaxExpiredAtOne = nexp
			}
			// boundary groups (exp == T) and anything else composed during this op
			dropComposed(oo.Composes)
			if joined || oo.Op.Flush {
				if gi := find(oo.Op.ID); gi >= 0 {
					remove(gi)
				}
				continue
			}
			if gi := find(oo.Op.ID); gi >= 0 {
				groups[gi].toks = append(groups[gi].toks, oo.Tok)
			} else {
				groups = append(groups, &c17group{id: oo.Op.ID, toks: []int{oo.Tok}, exp: oo.T.Add(oo.Exp)})
			}
			if len(groups) > sum.MaxOpen {
				sum.MaxOpen = len(groups)
			}
		case OpFlushAll, OpClose:
			if msg := lingering(i, "op", oo.Composes, -1); msg != "" {
				return msg, sum
			}
			if oo.Err != nil {
				dropComposed(oo.Composes)
				continue
			}
			if len(groups) > sum.MaxFlushed {
				sum.MaxFlushed = len(groups)
			}
			if oo.BrokerSet {
				// the statement orders only the groups a Process call expires ("oldest first"); for
				// FlushAll/Close it says "every previously gated group was emitted exactly once"
				usedSend := map[int]bool{}
				for _, g := range groups {
					k := -1
					for from := 0; ; {
						k = sentIdx(oo, g.toks, from, -1)
						if k < 0 || !usedSend[k] {
							break
						}
						from = k + 1
					}
					if k < 0 {
						return fmt.Sprintf("op %d: %s returned successfully but group %v of %q was not emitted through the Broker", i, oo.Op, g.toks, g.id), sum
					}
					usedSend[k] = true
				}
				n := 0
				for _, s := range oo.Sends {
					if !s.Err {
						n++
					}
				}
				if n != len(groups) {
					return fmt.Sprintf("op %d: %s emitted %d composites for %d gated groups", i, oo.Op, n, len(groups)), sum
				}
			} else {
				sum.Dropped += len(groups)
			}
			groups = nil
		}
	}
	if msg := lingering(0, "probe", o.Probe, -1); msg != "" {
		return msg, sum
	}
	return "", sum
}
