// Package gatedh drives gated.Filter with generated histories and records what
// it did (return values, ComposeFrom argument lists, Sender calls).  The oracles
// for C11 (no loss / duplication / reordering) and C17 (nothing lingers) work on
// these observations only.
package gatedh

import (
	"context"
	"errors"
	"fmt"
	"math"
	"strings"
	"sync"
	"time"

	"github.com/hashicorp/eventlogger"
	"github.com/hashicorp/eventlogger/filters/gated"
)

type OpKind int

const (
	OpEv OpKind = iota
	OpNonGate
	OpTick
	OpFlushAll
	OpClose
	OpBrokerOn
	OpBrokerOff
	OpArmCompose      // next ComposeFrom returns an error
	OpArmGateable     // next ComposeFrom returns a Gateable composite
	OpArmSend         // next Sender.Send returns an error
	OpSetExp          // assign Filter.Expiration on the live filter (Tick field: 0 -> 0 (default 10s), 1 -> E/2, 2 -> E, 3 -> 2E)
	OpArmNil          // next ComposeFrom returns a nil payload (a composite that carries everything in its event type)
	OpArmGateableNoID // next ComposeFrom returns a Gateable composite whose GetID() is ""
	OpArmSendWarn     // next Sender.Send returns a nil error together with a Status that carries warnings and no completion
	OpArmSendSecond   // the Sender.Send AFTER the next one fails (the second composite of one sweep / FlushAll)
)

// Tick sizes are expressed relative to the expiration E.
const (
	TickZero  = 0
	TickHalf  = 1 // E/2
	TickExact = 2 // E
	TickOver  = 3 // E + 1ns
	TickSmall = 4 // 1ns
)

type Op struct {
	K       OpKind
	ID      string
	Flush   bool
	Tick    int
	CtxDone bool `json:",omitempty"` // OpEv: Process is called with a context that is already cancelled (the recording Sender does not look at it)
}

func (o Op) String() string {
	switch o.K {
	case OpEv:
		x := ""
		if o.CtxDone {
			x = ",ctx done"
		}
		if o.Flush {
			return "flush(" + o.ID + x + ")"
		}
		return "ev(" + o.ID + x + ")"
	case OpNonGate:
		return "plain"
	case OpTick:
		return [...]string{"tick0", "tick<E", "tick=E", "tick>E", "tick1ns"}[o.Tick]
	case OpFlushAll:
		return "FlushAll"
	case OpClose:
		return "Close"
	case OpBrokerOn:
		return "brokerOn"
	case OpBrokerOff:
		return "brokerOff"
	case OpArmCompose:
		return "armComposeErr"
	case OpArmGateable:
		return "armGateableComposite"
	case OpArmSend:
		return "armSendErr"
	case OpArmNil:
		return "armNilPayloadComposite"
	case OpArmGateableNoID:
		return "armGateableCompositeWithoutID"
	case OpArmSendWarn:
		return "armSendWarningsWithoutError"
	case OpArmSendSecond:
		return "armSecondSendFailure"
	case OpSetExp:
		return [...]string{"setExp(0=default)", "setExp(E/2)", "setExp(E)", "setExp(2E)"}[o.Tick%4]
	}
	return "?"
}

type Config struct {
	DefaultExpiration bool // leave Filter.Expiration zero (10s default)
	BrokerInit        bool
	HugeExp           bool // Expiration = the largest Duration ("never expire"); ticks stay relative to one second
	ViaController     bool // Close is issued through one long-lived eventlogger.NodeController wrapped around the filter
	ClockBase         int  `json:",omitempty"` // where the harness clock starts: 0 = 2026, 1 = 1.2 s before int64 nanoseconds since 1970 overflow (2262-04-11T23:47:16.85Z), 2 = 1.2 s before they underflow (1677-09-21), 3 = year 1, 4 = 1969-12-31T23:59:59
}

// ClockBases are the starting instants of the harness clock; the histories move it forward by fractions of the expiration.
var ClockBases = []time.Time{
	time.Date(2026, 1, 1, 0, 0, 0, 0, time.UTC),
	time.Unix(0, math.MaxInt64).UTC().Add(-1200 * time.Millisecond),
	time.Unix(0, math.MinInt64).UTC().Add(-1200 * time.Millisecond),
	time.Date(1, 1, 1, 0, 0, 1, 0, time.UTC),
	time.Date(1969, 12, 31, 23, 59, 59, 0, time.UTC),
}

func Describe(cfg Config, ops []Op) string {
	var sb strings.Builder
	fmt.Fprintf(&sb, "cfg{defaultExp=%v broker=%v hugeExp=%v closeViaController=%v clockStart=%s}", cfg.DefaultExpiration, cfg.BrokerInit, cfg.HugeExp, cfg.ViaController, ClockBases[cfg.ClockBase%len(ClockBases)].Format(time.RFC3339Nano))
	for _, o := range ops {
		sb.WriteByte(' ')
		sb.WriteString(o.String())
	}
	return sb.String()
}

type ComposeCall struct {
	Toks     []int
	IDs      []string
	Err      bool
	Gateable bool
}

type SendCall struct {
	Toks     []int
	Gateable bool // payload handed to the Sender is Gateable (must never happen)
	Foreign  bool // payload is not a composite of this harness
	Err      bool
}

type OpObs struct {
	Op        Op
	Exp       time.Duration // Filter.Expiration in force for groups opened by this op
	T         time.Time
	BrokerSet bool
	Tok       int
	Err       error
	RetSame   bool
	RetNil    bool
	RetComp   []int // tokens of the returned composite (flush path)
	RetIsComp bool
	Composes  []ComposeCall
	Sends     []SendCall
}

type Obs struct {
	Cfg        Config
	Exp        time.Duration
	Ops        []OpObs
	Probe      []ComposeCall // ComposeFrom calls during the final probe
	ProbeSends []SendCall
	ProbeErrs  []string
}

const ProbeTokBase = 1 << 20

type rec struct {
	mu              sync.Mutex // the filter need not serialise its calls into user code
	composes        []ComposeCall
	sends           []SendCall
	armCompose      bool
	armGateable     bool
	armNil          bool
	armGateableNoID bool
	armSendWarn     bool
	lastToks        []int // argument of the most recent ComposeFrom call
	lastNil         bool  // ... which returned a nil payload
	armSend         bool
	armSendSkip     int // successful sends to let through before the armed failure
}

// ev is the harness's Gateable payload.
type ev struct {
	id    string
	flush bool
	tok   int
	r     *rec
}

func (e *ev) GetID() string    { return e.id }
func (e *ev) FlushEvent() bool { return e.flush }
func (e *ev) ComposeFrom(events []*eventlogger.Event) (eventlogger.EventType, interface{}, error) {
	c := ComposeCall{}
	for _, x := range events {
		if p, ok := x.Payload.(*ev); ok {
			c.Toks = append(c.Toks, p.tok)
			c.IDs = append(c.IDs, p.id)
		} else {
			c.Toks = append(c.Toks, -1)
			c.IDs = append(c.IDs, "?")
		}
	}
	r := e.r
	r.mu.Lock()
	defer r.mu.Unlock()
	switch {
	case r.armCompose:
		r.armCompose = false
		c.Err = true
		r.composes = append(r.composes, c)
		return "", nil, errors.New("harness: armed compose failure")
	case r.armGateable:
		r.armGateable = false
		c.Gateable = true
		r.composes = append(r.composes, c)
		return "composite", &ev{id: "composite", r: r, tok: -2}, nil
	case r.armGateableNoID:
		r.armGateableNoID = false
		c.Gateable = true
		r.composes = append(r.composes, c)
		return "composite", &ev{id: "", r: r, tok: -2}, nil
	}
	r.composes = append(r.composes, c)
	r.lastToks, r.lastNil = append([]int(nil), c.Toks...), false
	if r.armNil {
		r.armNil = false
		r.lastNil = true
		return "composite-without-payload", nil, nil
	}
	return "composite", &composite{toks: append([]int(nil), c.Toks...)}, nil
}

type composite struct{ toks []int }

type sender struct{ r *rec }

func (s *sender) Send(_ context.Context, _ eventlogger.EventType, payload interface{}) (eventlogger.Status, error) {
	s.r.mu.Lock()
	defer s.r.mu.Unlock()
	c := SendCall{}
	if _, ok := payload.(gated.Gateable); ok {
		c.Gateable = true
	}
	if p, ok := payload.(*composite); ok {
		c.Toks = p.toks
	} else if payload == nil && s.r.lastNil {
		c.Toks = s.r.lastToks // the composite that has no payload
	} else {
		c.Foreign = true
	}
	if s.r.armSend && s.r.armSendSkip > 0 {
		s.r.armSendSkip--
	} else if s.r.armSend {
		s.r.armSend = false
		c.Err = true
		s.r.sends = append(s.r.sends, c)
		return eventlogger.Status{}, errors.New("harness: armed send failure")
	}
	s.r.sends = append(s.r.sends, c)
	if s.r.armSendWarn {
		s.r.armSendWarn = false
		// what a Broker without thresholds returns when a downstream node failed: warnings, nothing complete, no error
		return eventlogger.Status{Warnings: []error{errors.New("harness: downstream node failed")}}, nil
	}
	return eventlogger.Status{}, nil
}

type plain struct{ tok int }

var base = time.Date(2026, 1, 1, 0, 0, 0, 0, time.UTC)

// IDs used by probes.
var ProbeIDs = []string{"a", "b", "c", "a ", " a", "A", "a\n"}

// Run executes a history against a fresh gated.Filter.
func Run(cfg Config, ops []Op) *Obs {
	r := &rec{}
	snd := &sender{r: r}
	now := ClockBases[cfg.ClockBase%len(ClockBases)]
	f := &gated.Filter{NowFunc: func() time.Time { return now }}
	exp := gated.DefaultEventTimeout
	if !cfg.DefaultExpiration {
		exp = time.Second
		f.Expiration = exp
	}
	if cfg.HugeExp {
		f.Expiration = time.Duration(math.MaxInt64)
	}
	if cfg.BrokerInit {
		f.Broker = snd
	}
	nc := eventlogger.NewNodeController(f)
	o := &Obs{Cfg: cfg, Exp: exp}
	curExp := exp
	if cfg.HugeExp {
		curExp = time.Duration(math.MaxInt64)
		o.Exp = curExp
	}
	ctx := context.Background()
	tok := 0
	for _, op := range ops {
		oo := OpObs{Op: op, T: now, BrokerSet: f.Broker != nil, Tok: -1, Exp: curExp}
		r.composes, r.sends = nil, nil
		switch op.K {
		case OpEv, OpNonGate:
			tok++
			oo.Tok = tok
			var payload interface{}
			if op.K == OpEv {
				payload = &ev{id: op.ID, flush: op.Flush, tok: tok, r: r}
			} else {
				payload = &plain{tok: tok}
			}
			in := &eventlogger.Event{Type: "t", CreatedAt: now, Formatted: map[string][]byte{}, Payload: payload}
			pctx := ctx
			if op.CtxDone {
				c, cancel := context.WithCancel(ctx)
				cancel()
				pctx = c
			}
			out, err := f.Process(pctx, in)
			oo.Err = err
			switch {
			case out == nil:
				oo.RetNil = true
			case out == in:
				oo.RetSame = true
			default:
				if c, ok := out.Payload.(*composite); ok {
					oo.RetIsComp = true
					oo.RetComp = c.toks
				} else if out.Payload == nil && r.lastNil {
					oo.RetIsComp = true
					oo.RetComp = r.lastToks
				}
			}
		case OpTick:
			switch op.Tick {
			case TickHalf:
				now = now.Add(exp / 2)
			case TickExact:
				now = now.Add(exp)
			case TickOver:
				now = now.Add(exp + 1)
			case TickSmall:
				now = now.Add(1)
			}
		case OpFlushAll:
			oo.Err = f.FlushAll(ctx)
		case OpClose:
			if cfg.ViaController {
				oo.Err = nc.Close(ctx)
			} else {
				oo.Err = f.Close(ctx)
			}
		case OpBrokerOn:
			f.Broker = snd
		case OpBrokerOff:
			f.Broker = nil
		case OpArmCompose:
			r.armCompose = true
		case OpArmGateable:
			r.armGateable = true
		case OpArmSend:
			r.armSend = true
		case OpArmNil:
			r.armNil = true
		case OpArmGateableNoID:
			r.armGateableNoID = true
		case OpArmSendWarn:
			r.armSendWarn = true
		case OpArmSendSecond:
			r.armSend, r.armSendSkip = true, 1
		case OpSetExp:
			switch op.Tick % 4 {
			case 0:
				f.Expiration, curExp = 0, gated.DefaultEventTimeout
			case 1:
				f.Expiration, curExp = exp/2, exp/2
			case 2:
				f.Expiration, curExp = exp, exp
			case 3:
				f.Expiration, curExp = 2*exp, 2*exp
			}
		}
		oo.Composes, oo.Sends = r.composes, r.sends
		o.Ops = append(o.Ops, oo)
	}
	// final probe: clock frozen, recording sender, no armed failures
	r.armCompose, r.armGateable, r.armSend, r.armNil, r.armGateableNoID, r.armSendWarn = false, false, false, false, false, false
	r.armSendSkip = 0
	r.composes, r.sends = nil, nil
	f.Broker = snd
	if err := f.FlushAll(ctx); err != nil {
		o.ProbeErrs = append(o.ProbeErrs, "FlushAll: "+err.Error())
	}
	for i, id := range ProbeIDs {
		in := &eventlogger.Event{Type: "t", CreatedAt: now, Formatted: map[string][]byte{}, Payload: &ev{id: id, flush: true, tok: ProbeTokBase + i, r: r}}
		if _, err := f.Process(ctx, in); err != nil {
			o.ProbeErrs = append(o.ProbeErrs, "probe flush "+id+": "+err.Error())
		}
	}
	// a second FlushAll: anything still gated after the per-id flushes
	if err := f.FlushAll(ctx); err != nil {
		o.ProbeErrs = append(o.ProbeErrs, "FlushAll2: "+err.Error())
	}
	o.Probe, o.ProbeSends = r.composes, r.sends
	return o
}

// Conc gives concurrent tests access to the recording payload and sender.
type Conc struct{ r *rec }

func NewConc() *Conc { return &Conc{r: &rec{}} }

func (c *Conc) Event(id string, flush bool, tok int) *eventlogger.Event {
	return &eventlogger.Event{Type: "t", CreatedAt: base, Formatted: map[string][]byte{}, Payload: &ev{id: id, flush: flush, tok: tok, r: c.r}}
}

func (c *Conc) Sender() gated.Sender { return &sender{r: c.r} }

// Composes returns the ComposeFrom calls recorded so far (call after quiescence).
func (c *Conc) Composes() []ComposeCall {
	c.r.mu.Lock()
	defer c.r.mu.Unlock()
	return append([]ComposeCall(nil), c.r.composes...)
}
func (c *Conc) Sends() []SendCall {
	c.r.mu.Lock()
	defer c.r.mu.Unlock()
	return append([]SendCall(nil), c.r.sends...)
}
