package gatedh

import (
	"pgregory.net/rapid"
)

// GenHistory draws a configuration and a history of up to maxOps operations.
// bias17 shifts weight towards many simultaneously open groups and clock moves.
func GenHistory(t *rapid.T, maxOps int, bias17 bool) (Config, []Op) {
	cfg := Config{
		DefaultExpiration: rapid.IntRange(0, 4).Draw(t, "defaultExp") == 0,
		BrokerInit:        rapid.IntRange(0, 3).Draw(t, "brokerInit") != 0,
		HugeExp:           rapid.IntRange(0, 7).Draw(t, "hugeExp") == 0,
		ViaController:     rapid.IntRange(0, 3).Draw(t, "closeViaController") == 0,
		ClockBase:         rapid.SampledFrom([]int{0, 0, 0, 0, 1, 1, 2, 3, 4}).Draw(t, "clockStart"),
	}
	// ids that are distinct strings but equal after trimming or case folding
	ids := []string{"a", "b", "c", "a", "b", "c", "a ", " a", "A", "a\n"}
	opGen := rapid.Custom(func(t *rapid.T) Op {
		var k int
		if bias17 {
			k = rapid.SampledFrom([]int{0, 0, 0, 0, 0, 0, 1, 2, 2, 2, 2, 3, 4, 5, 6, 0, 0, 2, 7, 8, 9, 11, 11, 12, 13, 14, 15, 15}).Draw(t, "k")
		} else {
			k = rapid.SampledFrom([]int{0, 0, 0, 0, 0, 0, 0, 0, 1, 2, 2, 2, 3, 4, 5, 6, 7, 8, 9, 10, 11, 12, 13, 14, 15}).Draw(t, "k")
		}
		switch k {
		case 0:
			fl := rapid.IntRange(0, 4).Draw(t, "flush") == 0
			if bias17 {
				fl = rapid.IntRange(0, 9).Draw(t, "flush") == 0
			}
			return Op{K: OpEv, ID: rapid.SampledFrom(ids).Draw(t, "id"), Flush: fl, CtxDone: rapid.IntRange(0, 5).Draw(t, "ctxDone") == 0}
		case 1:
			return Op{K: OpNonGate}
		case 2:
			return Op{K: OpTick, Tick: rapid.SampledFrom([]int{TickHalf, TickHalf, TickExact, TickOver, TickOver, TickSmall, TickZero}).Draw(t, "tick")}
		case 3:
			return Op{K: OpFlushAll}
		case 4:
			return Op{K: OpClose}
		case 5:
			return Op{K: OpBrokerOn}
		case 6:
			return Op{K: OpBrokerOff}
		case 7:
			return Op{K: OpArmCompose}
		case 8:
			return Op{K: OpArmSend}
		case 9:
			return Op{K: OpArmGateable}
		case 12:
			return Op{K: OpArmNil}
		case 13:
			return Op{K: OpArmGateableNoID}
		case 14:
			return Op{K: OpArmSendWarn}
		case 15:
			return Op{K: OpArmSendSecond}
		case 11:
			return Op{K: OpSetExp, Tick: rapid.IntRange(0, 3).Draw(t, "newExp")}
		default:
			return Op{K: OpEv, ID: "", Flush: rapid.Bool().Draw(t, "flush")}
		}
	})
	ops := rapid.SliceOfN(opGen, 1, maxOps).Draw(t, "ops")
	return cfg, ops
}

// Enumerate calls f for every sequence over alphabet of length 1..depth whose
// index falls into this shard; f returns false to stop.
func Enumerate(alphabet []Op, depth, shard, nshards int, f func(ops []Op) bool) bool {
	a := len(alphabet)
	idx := make([]int, depth)
	ops := make([]Op, depth)
	var n int64
	for L := 1; L <= depth; L++ {
		for i := 0; i < L; i++ {
			idx[i] = 0
		}
		for {
			if int(n%int64(nshards)) == shard {
				for i := 0; i < L; i++ {
					ops[i] = alphabet[idx[i]]
				}
				if !f(ops[:L]) {
					return false
				}
			}
			n++
			// increment
			p := L - 1
			for p >= 0 {
				idx[p]++
				if idx[p] < a {
					break
				}
				idx[p] = 0
				p--
			}
			if p < 0 {
				break
			}
		}
	}
	return true
}
