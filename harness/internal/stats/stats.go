// Package stats collects what a check run actually covered (evaluations,
// distinct non-trivial cases, class counters, samples, known-finding hits) and
// writes it as JSON for the ./check driver, which merges shards into
// /verif/evidence/<ID>.json.
package stats

import (
	"bufio"
	"encoding/json"
	"fmt"
	"hash/fnv"
	"os"
	"path/filepath"
	"sort"
	"strconv"
	"strings"
	"sync"
	"testing"
	"time"
)

const maxSamples = 6

// Section is the coverage record of one sub-check (one Test function).
type Section struct {
	mu          sync.Mutex
	name        string
	rule        string
	evals       int64
	hashes      map[uint64]struct{}
	distinctBC  int64 // distinct non-trivial by construction (exhaustive enumerators)
	exhaustive  bool
	classes     map[string]int64
	samples     []interface{}
	excluded    int64
	extra       map[string]interface{}
	sampleEvery int64
}

var (
	lastFlush = time.Now()
	mu        sync.Mutex
	prop      string
	sections  = map[string]*Section{}
	order     []string
	knownOpen = map[string]string{} // sig -> text
	knownHits = map[string]int64{}
	started   = time.Now()
	violSeq   int
)

// Main is the TestMain body of every props package.
func Main(m *testing.M, property string) {
	prop = property
	loadKnown()
	code := m.Run()
	Flush()
	os.Exit(code)
}

func loadKnown() {
	p := os.Getenv("VERIF_KNOWN")
	if p == "" {
		return
	}
	f, err := os.Open(p)
	if err != nil {
		return
	}
	defer f.Close()
	sc := bufio.NewScanner(f)
	for sc.Scan() {
		line := strings.TrimSpace(sc.Text())
		if !strings.HasPrefix(line, "open:") {
			continue
		}
		fields := strings.Fields(line[len("open:"):])
		var pid, sig string
		var rest []string
		for _, f := range fields {
			switch {
			case strings.HasPrefix(f, "property=") && pid == "":
				pid = f[len("property="):]
			case strings.HasPrefix(f, "sig=") && sig == "":
				sig = f[len("sig="):]
			default:
				rest = append(rest, f)
			}
		}
		if pid == prop && sig != "" {
			knownOpen[sig] = strings.Join(rest, " ")
		}
	}
}

// Known reports whether sig is listed as an open known finding of this
// property, and records the hit.  A check that hits a known signature counts
// the case as excluded and keeps searching.
func Known(sig string) bool {
	mu.Lock()
	defer mu.Unlock()
	if _, ok := knownOpen[sig]; !ok {
		return false
	}
	knownHits[sig]++
	return true
}

// IsKnown is Known without recording a hit.
func IsKnown(sig string) bool {
	mu.Lock()
	defer mu.Unlock()
	_, ok := knownOpen[sig]
	return ok
}

// Sec returns (creating on first use) the section for a sub-check.
func Sec(name, rule string) *Section {
	mu.Lock()
	defer mu.Unlock()
	s, ok := sections[name]
	if !ok {
		s = &Section{name: name, rule: rule, hashes: map[uint64]struct{}{}, classes: map[string]int64{}, extra: map[string]interface{}{}}
		sections[name] = s
		order = append(order, name)
	}
	return s
}

func hash(s string) uint64 {
	h := fnv.New64a()
	_, _ = h.Write([]byte(s))
	return h.Sum64()
}

// Case records one evaluated case. desc is the canonical descriptor of the case
// (used for distinctness and as the sample); classes are label counters.
// maybeFlush keeps the stats file fresh so that a process that dies (a crash in the library is
// itself a finding) still leaves its coverage counts behind.
func maybeFlush() {
	mu.Lock()
	due := time.Since(lastFlush) > 15*time.Second
	if due {
		lastFlush = time.Now()
	}
	mu.Unlock()
	if due {
		Flush()
	}
}

func (s *Section) Case(nontrivial bool, desc string, classes ...string) {
	defer maybeFlush()
	s.mu.Lock()
	defer s.mu.Unlock()
	s.evals++
	for _, c := range classes {
		s.classes[c]++
	}
	if nontrivial {
		h := hash(desc)
		if _, ok := s.hashes[h]; !ok {
			s.hashes[h] = struct{}{}
			if len(s.samples) < maxSamples {
				d := desc
				if len(d) > 1500 {
					d = d[:1500] + "…"
				}
				s.samples = append(s.samples, d)
			}
		}
	}
}

// CaseEnum records one case of an exhaustive enumeration: distinct by
// construction, so no hash is kept. sample is only rendered for the first few.
func (s *Section) CaseEnum(nontrivial bool, sample func() string, classes ...string) {
	s.mu.Lock()
	defer s.mu.Unlock()
	s.evals++
	s.exhaustive = true
	for _, c := range classes {
		s.classes[c]++
	}
	if nontrivial {
		s.distinctBC++
		if len(s.samples) < maxSamples && (s.distinctBC%97 == 1) {
			s.samples = append(s.samples, sample())
		}
	}
}

// Class increments label counters without counting a case.
func (s *Section) Class(classes ...string) {
	s.mu.Lock()
	defer s.mu.Unlock()
	for _, c := range classes {
		s.classes[c]++
	}
}

// ClassN adds n to a label counter.
func (s *Section) ClassN(class string, n int64) {
	s.mu.Lock()
	defer s.mu.Unlock()
	s.classes[class] += n
}

// Excluded counts a case that only hit an open known finding.
func (s *Section) Excluded() {
	s.mu.Lock()
	defer s.mu.Unlock()
	s.excluded++
}

// Set stores an extra key (e.g. enumeration depth).
func (s *Section) Set(key string, v interface{}) {
	s.mu.Lock()
	defer s.mu.Unlock()
	s.extra[key] = v
}

// NotExhaustive clears the exhaustive flag (enumeration aborted).
func (s *Section) NotExhaustive() {
	s.mu.Lock()
	defer s.mu.Unlock()
	s.exhaustive = false
}

// Violation writes a JSON replay file and prints the line the driver looks for.
// It returns the path. test is the Test function that can replay the file.
func Violation(test string, payload map[string]interface{}) string {
	mu.Lock()
	violSeq++
	n := violSeq
	mu.Unlock()
	dir := os.Getenv("VERIF_REPLAY_DIR")
	if dir == "" {
		dir = os.TempDir()
	}
	_ = os.MkdirAll(dir, 0o755)
	payload["test"] = test
	payload["property"] = prop
	shard := os.Getenv("VERIF_SHARD")
	p := filepath.Join(dir, fmt.Sprintf("%s-%s-s%s-%d-%d.json", prop, test, shard, os.Getpid(), n))
	b, _ := json.MarshalIndent(payload, "", " ")
	_ = os.WriteFile(p, b, 0o644)
	fmt.Printf("\nVIOLATION-JSON %s\n", p)
	return p
}

// ReplayFile returns the JSON replay payload when the driver asked for a replay
// of a JSON history for the given test, else nil.
func ReplayFile(test string) map[string]interface{} {
	p := os.Getenv("VERIF_REPLAY")
	if p == "" || !strings.HasSuffix(p, ".json") {
		return nil
	}
	b, err := os.ReadFile(p)
	if err != nil {
		return nil
	}
	var m map[string]interface{}
	if json.Unmarshal(b, &m) != nil {
		return nil
	}
	if m["test"] != test {
		return nil
	}
	return m
}

// Replaying reports whether any replay was requested (then generation-phase
// tests that cannot replay the file skip themselves).
func Replaying() bool { return os.Getenv("VERIF_REPLAY") != "" }

// Flush writes the stats file.
func Flush() {
	p := os.Getenv("VERIF_STATS")
	if p == "" {
		return
	}
	mu.Lock()
	defer mu.Unlock()
	out := map[string]interface{}{
		"property":   prop,
		"wall_s":     time.Since(started).Seconds(),
		"known_hits": knownHits,
	}
	secs := []interface{}{}
	for _, name := range order {
		s := sections[name]
		s.mu.Lock()
		hs := make([]string, 0, len(s.hashes))
		for h := range s.hashes {
			hs = append(hs, strconv.FormatUint(h, 16))
		}
		sort.Strings(hs)
		secs = append(secs, map[string]interface{}{
			"name": s.name, "rule": s.rule, "evaluations": s.evals,
			"hashes": hs, "distinct_by_construction": s.distinctBC,
			"exhaustive": s.exhaustive, "classes": s.classes, "samples": s.samples,
			"excluded": s.excluded, "extra": s.extra,
		})
		s.mu.Unlock()
	}
	out["sections"] = secs
	b, _ := json.Marshal(out)
	tmp := p + ".tmp"
	if os.WriteFile(tmp, b, 0o644) == nil {
		_ = os.Rename(tmp, p)
	}
}

// Seed returns VERIF_SEED (0 remapped by the driver already) for the few places
// that derive deterministic non-rapid choices (shard partitioning).
func Seed() int64 {
	v, _ := strconv.ParseInt(os.Getenv("VERIF_SEED"), 10, 64)
	if v == 0 {
		v = 20261002
	}
	return v
}

// Shard returns this process's shard index and the shard count.
func Shard() (int, int) {
	i, _ := strconv.Atoi(os.Getenv("VERIF_SHARD"))
	n, _ := strconv.Atoi(os.Getenv("VERIF_NSHARDS"))
	if n <= 0 {
		n = 1
	}
	return i, n
}

// EnvInt reads an integer parameter handed over by the driver.
func EnvInt(name string, def int) int {
	v, err := strconv.Atoi(os.Getenv(name))
	if err != nil {
		return def
	}
	return v
}
