package stats

import (
	"fmt"
	"time"
)

// A process (or the whole machine: a snapshot, a suspended VM) that stands still for seconds makes every
// armed watchdog timer fire at once, before the calls it watches get to run again. The checks use
// wall-clock bounds only for "did not return" verdicts; this monitor makes such a pause visible in the
// process's output, and the driver re-runs a failing process that saw one (DESIGN.md 10.2).
func init() {
	go func() {
		const tick = 50 * time.Millisecond
		last := time.Now()
		for {
			time.Sleep(tick)
			now := time.Now()
			if gap := now.Sub(last); gap > 3*time.Second {
				fmt.Printf("\nSTALL-MARK gap=%s at=%s\n", gap.Round(time.Millisecond), now.Format("15:04:05.000"))
			}
			last = now
		}
	}()
}
