package model

import (
	"context"
	"fmt"
	"sort"
	"strings"

	"github.com/hashicorp/eventlogger"
	"verif/harness/internal/nodes"
)

// Spec is the sequential specification of the Broker registry, read from the
// statements of C05, C06 and C07 (not from the implementation).
type Spec struct {
	Nodes    map[string]*SNode
	Pipes    map[PKey]*SPipe
	Removals map[string]int // how many times id was unregistered (each must close exactly one instance of id)
}

type SNode struct {
	Inst *nodes.N
	Deny bool
}

type SPipe struct {
	IDs   []string
	Insts []*nodes.N
	Deny  bool
	Gen   int
}

func NewSpec() *Spec {
	return &Spec{Nodes: map[string]*SNode{}, Pipes: map[PKey]*SPipe{}, Removals: map[string]int{}}
}

func (s *Spec) RegisterNode(id string, inst *nodes.N, pol int) bool {
	if id == "" || pol == 3 {
		return false
	}
	if n, ok := s.Nodes[id]; ok && n.Deny {
		return false
	}
	s.Nodes[id] = &SNode{Inst: inst, Deny: pol == 2}
	return true
}

func (s *Spec) RegisterPipeline(et, pid string, ids []string, pol int, gen int) bool {
	if et == "" || pid == "" || len(ids) == 0 || pol == 3 {
		return false
	}
	for _, id := range ids {
		if id == "" {
			return false
		}
	}
	k := PKey{eventlogger.EventType(et), eventlogger.PipelineID(pid)}
	if p, ok := s.Pipes[k]; ok && p.Deny {
		return false
	}
	var insts []*nodes.N
	for _, id := range ids {
		n, ok := s.Nodes[id]
		if !ok {
			return false
		}
		insts = append(insts, n.Inst)
	}
	if len(ids) < 2 {
		return false
	}
	if insts[len(insts)-1].T != eventlogger.NodeTypeSink {
		return false
	}
	if t := insts[len(insts)-2].T; t != eventlogger.NodeTypeFormatter && t != eventlogger.NodeTypeFormatterFilter {
		return false
	}
	s.Pipes[k] = &SPipe{IDs: append([]string(nil), ids...), Insts: insts, Deny: pol == 2, Gen: gen}
	return true
}

func (s *Spec) InUse(id string) bool {
	for _, p := range s.Pipes {
		for _, x := range p.IDs {
			if x == id {
				return true
			}
		}
	}
	return false
}

// RemoveNodeClass: "invalid", "notfound", "inuse", "removed".
func (s *Spec) RemoveNodeClass(id string) string {
	if id == "" {
		return "invalid"
	}
	if _, ok := s.Nodes[id]; !ok {
		return "notfound"
	}
	if s.InUse(id) {
		return "inuse"
	}
	return "removed"
}

func (s *Spec) RemoveNode(id string) string {
	c := s.RemoveNodeClass(id)
	if c == "removed" {
		delete(s.Nodes, id)
		s.Removals[id]++
	}
	return c
}

func (s *Spec) RemovePipeline(et, pid string) {
	delete(s.Pipes, PKey{eventlogger.EventType(et), eventlogger.PipelineID(pid)})
}

// RPAN returns (ok, ids unregistered).
func (s *Spec) RPAN(et, pid string) (bool, []string) {
	k := PKey{eventlogger.EventType(et), eventlogger.PipelineID(pid)}
	p, ok := s.Pipes[k]
	if et == "" || pid == "" || !ok {
		return false, nil
	}
	delete(s.Pipes, k)
	var gone []string
	seen := map[string]bool{}
	for _, id := range p.IDs {
		if seen[id] {
			continue
		}
		seen[id] = true
		if _, reg := s.Nodes[id]; reg && !s.InUse(id) {
			delete(s.Nodes, id)
			s.Removals[id]++
			gone = append(gone, id)
		}
	}
	return true, gone
}

// ExpectDelivery is the sorted multiset "instance@S" a probe Send of type et must invoke.
func (s *Spec) ExpectDelivery(et string) []string {
	var ks []string
	for k, p := range s.Pipes {
		if string(k.ET) != et {
			continue
		}
		for _, n := range p.Insts {
			ks = append(ks, n.Name+"@S")
			if n.Ends(n.Default) != "next" {
				break
			}
		}
	}
	sort.Strings(ks)
	return ks
}

func (s *Spec) AnyPipeline(et string) bool {
	for k := range s.Pipes {
		if string(k.ET) == et {
			return true
		}
	}
	return false
}

// ---------------------------------------------------------------------------

// Checker runs a Broker and the Spec side by side.
type Checker struct {
	X *Exec
	S *Spec
	// Seen: what happened, for non-triviality rules.
	Failed, Overwrites, Removals, SharedRemovals, DupIDs, DenyHits int
	Reused                                                         int  // successful re-registrations of the very same node object
	LastFailed                                                     bool // the most recent call failed according to the specification
	rmpipeNoop                                                     bool
}

func NewChecker() *Checker { return &Checker{X: NewExec(), S: NewSpec()} }

// RemoveNodeOutcome classifies what a RemoveNode call did by its observable effect, not by the
// wording or identity of its error: "removed" (nil, or the node's Close ran during the call - a
// Close error is reported while the removal stands) or "refused".
func RemoveNodeOutcome(err error, closedDuringCall int) string {
	if err == nil || closedDuringCall > 0 {
		return "removed"
	}
	return "refused"
}

// Refusal folds the specification's reasons for not removing a node ("invalid", "notfound",
// "inuse") into the one outcome the statements speak about.
func Refusal(class string) string {
	if class == "removed" {
		return class
	}
	return "refused"
}

// Apply runs op on both sides and returns a mismatch description ("" = agree).
func (c *Checker) Apply(op Op) string {
	before := c.Failed
	msg := c.apply(op)
	c.LastFailed = c.Failed > before
	if op.K == "rmpipe" {
		// RemovePipeline on a missing pipeline changes nothing either
		c.LastFailed = c.rmpipeNoop
	}
	return msg
}

func (c *Checker) apply(op Op) string {
	x, s := c.X, c.S
	switch op.K {
	case "regnode":
		_, existed := s.Nodes[op.N]
		r := x.Apply(op)
		inst := x.All[len(x.All)-1]
		want := s.RegisterNode(op.N, inst, op.EffPol())
		if op.Reuse && existed && want {
			c.Reused++
		}
		if want && existed {
			c.Overwrites++
		}
		if !want {
			c.Failed++
			if existed && op.EffPol() != 3 && op.N != "" {
				c.DenyHits++
			}
		}
		if (r.Err == nil) != want {
			return fmt.Sprintf("%s returned %v, specification says success=%v", op, r.Err, want)
		}
	case "regpipe":
		k := PKey{eventlogger.EventType(op.ET), eventlogger.PipelineID(op.P)}
		old, existed := s.Pipes[k]
		r := x.Apply(op)
		want := s.RegisterPipeline(op.ET, op.P, op.IDs, op.EffPol(), len(x.Hist))
		if want && existed {
			c.Overwrites++
		}
		if !want {
			c.Failed++
			if existed && old.Deny {
				c.DenyHits++
			}
		} else {
			seen := map[string]bool{}
			for _, id := range op.IDs {
				if seen[id] {
					c.DupIDs++
				}
				seen[id] = true
			}
		}
		if (r.Err == nil) != want {
			return fmt.Sprintf("%s returned %v, specification says success=%v", op, r.Err, want)
		}
	case "rmpipe":
		x.Apply(op)
		c.rmpipeNoop = true
		if _, ok := s.Pipes[PKey{eventlogger.EventType(op.ET), eventlogger.PipelineID(op.P)}]; ok {
			c.Removals++
			c.rmpipeNoop = false
		}
		s.RemovePipeline(op.ET, op.P)
	case "rpan":
		before := closesByID(x)
		r := x.Apply(op)
		wantOK, gone := s.RPAN(op.ET, op.P)
		if r.OK != wantOK {
			return fmt.Sprintf("%s returned %v (%v), specification says %v", op, r.OK, r.Err, wantOK)
		}
		if !wantOK {
			c.Failed++
		} else {
			c.Removals++
		}
		after := closesByID(x)
		goneSet := map[string]bool{}
		for _, id := range gone {
			goneSet[id] = true
		}
		for id := range union(before, after) {
			d := after[id] - before[id]
			switch {
			case goneSet[id] && d != 1:
				return fmt.Sprintf("%s must close node %q exactly once (no remaining pipeline lists it), closed %d time(s)", op, id, d)
			case !goneSet[id] && d != 0:
				return fmt.Sprintf("%s closed node %q (%d) although it is still listed by a registered pipeline or was not part of it", op, id, d)
			}
		}
		for _, id := range gone {
			if after[id]-before[id] != 1 {
				return fmt.Sprintf("%s must close node %q exactly once, closed %d time(s)", op, id, after[id]-before[id])
			}
		}
	case "rmnode":
		before := closesByID(x)
		r := x.Apply(op)
		want := s.RemoveNode(op.N)
		after := closesByID(x)
		got := RemoveNodeOutcome(r.Err, after[op.N]-before[op.N])
		if got != Refusal(want) {
			return fmt.Sprintf("%s returned %v (outcome %s), specification says %s", op, r.Err, got, want)
		}
		for id := range union(before, after) {
			d := after[id] - before[id]
			if id == op.N && want == "removed" {
				if d != 1 {
					return fmt.Sprintf("%s must close the node exactly once, closed %d time(s)", op, d)
				}
			} else if d != 0 {
				return fmt.Sprintf("%s closed node %q as a side effect", op, id)
			}
		}
		if want == "removed" {
			c.Removals++
		} else {
			c.Failed++
		}
	default:
		x.Apply(op)
	}
	for _, n := range x.All {
		if c := x.Closes(n); c > 1 {
			return fmt.Sprintf("node instance %s was closed %d times (1000 = the node wrapped by a Closer wrapper was closed directly)", n.Name, c)
		}
	}
	return ""
}

func union(a, b map[string]int) map[string]bool {
	u := map[string]bool{}
	for k := range a {
		u[k] = true
	}
	for k := range b {
		u[k] = true
	}
	return u
}

func closesByID(x *Exec) map[string]int {
	m := map[string]int{}
	seen := map[*nodes.N]bool{}
	for _, n := range x.All {
		if seen[n] {
			continue // the same object registered again
		}
		seen[n] = true
		m[n.ID] += x.Closes(n)
	}
	return m
}

// CheckState compares the observable registry state with the specification:
// delivery per type, IsAnyPipelineRegistered, and (destructively, on replayed
// copies) the RemoveNode class of every id.
func (c *Checker) CheckState(ets, ids []string, newNode func(op Op, n *nodes.N)) string {
	x, s := c.X, c.S
	for _, et := range ets {
		got, _, _ := x.ProbeSend(et)
		want := s.ExpectDelivery(et)
		if strings.Join(got, ",") != strings.Join(want, ",") {
			return fmt.Sprintf("a Send of type %s reaches [%s], the registered pipelines are [%s]", et, strings.Join(got, " "), strings.Join(want, " "))
		}
		if g, w := x.B.IsAnyPipelineRegistered(eventlogger.EventType(et)), s.AnyPipeline(et); g != w {
			return fmt.Sprintf("IsAnyPipelineRegistered(%s)=%v, specification says %v", et, g, w)
		}
	}
	for _, id := range ids {
		want := s.RemoveNodeClass(id)
		cp := Replay(x.Hist, newNode)
		before := closesByID(cp)
		err := cp.B.RemoveNode(context.Background(), eventlogger.NodeID(id))
		after := closesByID(cp)
		got := RemoveNodeOutcome(err, after[id]-before[id])
		if got != Refusal(want) {
			return fmt.Sprintf("in-use accounting: RemoveNode(%q) in this state gives %q (%v), specification says %q (registered pipelines: %s)", id, got, err, want, s.PipesString())
		}
		for k := range union(before, after) {
			d := after[k] - before[k]
			if (k == id && want == "removed" && d != 1) || ((k != id || want != "removed") && d != 0) {
				return fmt.Sprintf("RemoveNode(%q) (class %s) closed node %q %d time(s)", id, want, k, d)
			}
		}
	}
	return ""
}

func (s *Spec) PipesString() string {
	var out []string
	for k, p := range s.Pipes {
		out = append(out, fmt.Sprintf("%s/%s=[%s]", k.ET, k.P, strings.Join(p.IDs, " ")))
	}
	sort.Strings(out)
	return strings.Join(out, " ")
}

// ClosesByID: how often the nodes created for each id were closed so far.
func (x *Exec) ClosesByID() map[string]int { return closesByID(x) }
