package model

import (
	"github.com/hashicorp/eventlogger"
	"pgregory.net/rapid"
)

// Maintain inserts, somewhere after one regpipe op of a drawn history, a maintenance sequence about that very
// pipeline - the kind of thing an operator does and a random history rarely lines up:
//
//	0 the UNCHANGED definition is registered again with DenyOverwrite, and later once more with the default policy
//	1 one of its nodes is replaced by a new instance under the same id, then the unchanged definition is registered again
//	2 it is removed together with its nodes, its formatter id is registered again as a FILTER, its other nodes are
//	  registered again, and the unchanged definition is registered again (now ill-formed)
//	3 the first-registered pipeline of its event type is removed, then it is overwritten with another sink
//	4 it is overwritten by an ill-formed definition (rejected), then one of its nodes is removed (must be refused)
func Maintain(t *rapid.T, ops []Op, typeOf func(id string) int, otherSink string) []Op {
	if rapid.IntRange(0, 1).Draw(t, "maintenance") != 0 {
		return ops
	}
	var regs []int
	for i, op := range ops {
		if op.K == "regpipe" && len(op.IDs) >= 2 && op.EffPol() != 3 {
			regs = append(regs, i)
		}
	}
	if len(regs) == 0 {
		return ops
	}
	ri := rapid.IntRange(0, len(regs)-1).Draw(t, "maintainWhich")
	i := regs[ri]
	def := ops[i]
	def.IDs = append([]string(nil), def.IDs...)
	def.Pol, def.Dress = 0, 0
	var ins []Op
	switch rapid.IntRange(0, 4).Draw(t, "maintenanceKind") {
	case 0:
		deny := def
		deny.Pol = 2
		ins = []Op{deny, def}
	case 1:
		id := def.IDs[rapid.IntRange(0, len(def.IDs)-1).Draw(t, "replacedNode")]
		ins = []Op{{K: "regnode", N: id, NT: typeOf(id)}, def}
	case 2:
		ins = []Op{{K: "rpan", ET: def.ET, P: def.P}}
		fmtID := def.IDs[len(def.IDs)-2]
		seen := map[string]bool{}
		for _, id := range def.IDs {
			if seen[id] {
				continue
			}
			seen[id] = true
			nt := typeOf(id)
			if id == fmtID {
				nt = int(eventlogger.NodeTypeFilter)
			}
			ins = append(ins, Op{K: "regnode", N: id, NT: nt})
		}
		ins = append(ins, def)
	case 3:
		over := def
		over.IDs = append([]string(nil), def.IDs...)
		over.IDs[len(over.IDs)-1] = otherSink
		ins = []Op{over}
		for _, j := range regs[:ri] {
			if ops[j].ET == def.ET && ops[j].P != def.P {
				// the earliest other pipeline of the same event type goes first
				ins = []Op{{K: "rmpipe", ET: ops[j].ET, P: ops[j].P}, over}
				break
			}
		}
	default:
		bad := def
		bad.IDs = def.IDs[:len(def.IDs)-1] // the sink is missing
		ins = []Op{bad, {K: "rmnode", N: def.IDs[0]}, {K: "rmnode", N: def.IDs[len(def.IDs)-1]}}
	}
	at := rapid.IntRange(i+1, len(ops)).Draw(t, "maintainAt")
	out := append([]Op{}, ops[:at]...)
	out = append(out, ins...)
	return append(out, ops[at:]...)
}
