// Package model holds (a) Exec: a Broker plus a tracker that follows the API's
// own results to know which pipelines (with which node instances) are
// registered — used by the dispatch properties — and (b) Spec: the sequential
// specification of the registry read from the property statements (C05, C06,
// C07, C04).
package model

import (
	"context"
	"fmt"
	"sort"
	"strings"
	"time"

	"github.com/hashicorp/eventlogger"
	"verif/harness/internal/nodes"
)

// Op is one registry call, pure data (JSON-serialisable for replays).
type Op struct {
	K         string   `json:"k"` // regnode regpipe rmpipe rpan rmnode thr thrsinks reopen
	N         string   `json:"n,omitempty"`
	NT        int      `json:"nt,omitempty"`
	Pol       int      `json:"pol,omitempty"` // 0 default, 1 allow, 2 deny, 3 invalid
	P         string   `json:"p,omitempty"`
	ET        string   `json:"et,omitempty"`
	IDs       []string `json:"ids,omitempty"`
	CloseErr  bool     `json:"closeErr,omitempty"`
	SinkRet   bool     `json:"sinkRet,omitempty"` // sink returns the event instead of nil
	V         int      `json:"v,omitempty"`
	Reuse     bool     `json:"reuse,omitempty"`     // regnode: register the SAME node object that is currently registered under the id
	Shape     int      `json:"shape,omitempty"`     // regnode: 0 plain *N, 1 Unwrapper-only wrapper, 2 wrapper that is Closer and Unwrapper, 3 uncomparable value node, 4 twelve Unwrap-only decorators around the node
	CtxDone   bool     `json:"ctxDone,omitempty"`   // rpan / rmnode: call with an already cancelled context
	Dress     int      `json:"dress,omitempty"`     // regnode / regpipe: how the option list is dressed up (the effective policy stays Pol): 1 a nil option first, 2 the opposite policy first (last one wins), 3 an option of the OTHER kind (node vs pipeline) with the opposite policy appended, 4 an INVALID policy value of the same kind first (the call must be rejected whatever follows)
	CloseKind int      `json:"closeKind,omitempty"` // regnode with CloseErr: 0 plain error, 1 an error wrapping context.Canceled, 2 context.DeadlineExceeded itself
}

// EffPol is the policy the specification sees: an invalid value anywhere in the option list makes the call invalid.
func (o Op) EffPol() int {
	if o.Dress == 4 {
		return 3
	}
	return o.Pol
}

func (o Op) String() string {
	pol := [...]string{"", ",allow", ",deny", ",INVALID"}[o.Pol]
	switch o.K {
	case "regnode":
		x := ""
		if o.CloseErr {
			x = ",closeErr"
		}
		if o.SinkRet {
			x += ",retEv"
		}
		if o.Reuse {
			x += ",sameObject"
		}
		if o.Shape != 0 {
			x += [...]string{"", ",unwrapper", ",closer+unwrapper", ",uncomparable-value", ",12-100-decorators", ",uncomparable-value-unwrapper"}[o.Shape]
		}
		x += dressName(o.Dress)
		return fmt.Sprintf("RegNode(%q,%s%s%s)", o.N, TypeName(o.NT), pol, x)
	case "regpipe":
		return fmt.Sprintf("RegPipe(%s/%q,[%s]%s%s)", o.ET, o.P, strings.Join(o.IDs, " "), pol, dressName(o.Dress))
	case "rmpipe":
		return fmt.Sprintf("RemovePipeline(%s/%q)", o.ET, o.P)
	case "rpan":
		if o.CtxDone {
			return fmt.Sprintf("RPAN(%s/%q,ctx done)", o.ET, o.P)
		}
		return fmt.Sprintf("RPAN(%s/%q)", o.ET, o.P)
	case "rmnode":
		if o.CtxDone {
			return fmt.Sprintf("RemoveNode(%q,ctx done)", o.N)
		}
		return fmt.Sprintf("RemoveNode(%q)", o.N)
	case "thr":
		return fmt.Sprintf("SetThr(%s,%d)", o.ET, o.V)
	case "thrsinks":
		return fmt.Sprintf("SetThrSinks(%s,%d)", o.ET, o.V)
	case "reopen":
		return "Reopen"
	case "newbroker":
		return fmt.Sprintf("NewBroker(nodeDeny=%v,pipelineDeny=%v)", o.V&1 != 0, o.V&2 != 0)
	case "stoptime":
		if o.V >= 0 && o.V < len(StopTimes) {
			return "StopTimeAt(" + StopTimes[o.V].Format(time.RFC3339Nano) + ")"
		}
	}
	return o.K
}

func dressName(d int) string {
	return [...]string{"", ",nil-option-first", ",opposite-policy-first", ",other-kind-option-last", ",invalid-policy-first"}[d%5]
}

// StopTimes: instants the Broker's clock may be stopped at (set by the generators' package).
var StopTimes []time.Time

func TypeName(nt int) string {
	switch eventlogger.NodeType(nt) {
	case eventlogger.NodeTypeFilter:
		return "filter"
	case eventlogger.NodeTypeFormatter:
		return "formatter"
	case eventlogger.NodeTypeSink:
		return "sink"
	case eventlogger.NodeTypeFormatterFilter:
		return "fmtfilter"
	}
	return fmt.Sprintf("type%d", nt)
}

func Describe(ops []Op) string {
	s := make([]string, len(ops))
	for i, o := range ops {
		s[i] = o.String()
	}
	return strings.Join(s, "; ")
}

type PKey struct {
	ET eventlogger.EventType
	P  eventlogger.PipelineID
}

// Pipe is what the tracker knows about a registered pipeline.
type Pipe struct {
	Key   PKey
	IDs   []string
	Insts []*nodes.N
	Gen   int // registration counter (which "version")
}

type Result struct {
	Err error
	OK  bool // RPAN's bool
}

// Exec applies ops to a real Broker and tracks what is registered from the results.
type Exec struct {
	B        *eventlogger.Broker
	W        *nodes.World
	Last     map[string]*nodes.N         // last successfully registered instance per id
	LastObj  map[string]eventlogger.Node // the object handed to RegisterNode for that instance
	Wrappers map[*nodes.N]*nodes.WrapCloser
	All      []*nodes.N // every instance ever created
	Pipes    map[PKey]*Pipe
	Hist     []Op
	gen      int
	keep     [][]eventlogger.NodeID
	ninst    int
	sends    int
	Stopped *time.Time // the instant the Broker's clock was last stopped at (StopTimeAt), nil = running
	// NewNode lets a test customise instances (re-entrant nodes etc.).
	NewNode func(op Op, n *nodes.N)
}

func NewExec() *Exec {
	b, _ := eventlogger.NewBroker()
	return &Exec{B: b, W: &nodes.World{}, Last: map[string]*nodes.N{}, LastObj: map[string]eventlogger.Node{}, Wrappers: map[*nodes.N]*nodes.WrapCloser{}, Pipes: map[PKey]*Pipe{}}
}

func polOpt(node bool, pol int) []eventlogger.Option {
	var p eventlogger.RegistrationPolicy
	switch pol {
	case 0:
		return nil
	case 1:
		p = eventlogger.AllowOverwrite
	case 2:
		p = eventlogger.DenyOverwrite
	default:
		p = "NoSuchPolicy"
	}
	if node {
		return []eventlogger.Option{eventlogger.WithNodeRegistrationPolicy(p)}
	}
	return []eventlogger.Option{eventlogger.WithPipelineRegistrationPolicy(p)}
}

// dressed builds the option list for a registration call. Whatever the dressing, the effective policy is pol:
// nil options are skipped, the last option of a kind wins, and an option of the other kind does not concern this call.
func dressed(node bool, pol, dress int) []eventlogger.Option {
	opts := polOpt(node, pol)
	opposite := eventlogger.DenyOverwrite
	if pol == 2 {
		opposite = eventlogger.AllowOverwrite
	}
	same := eventlogger.WithPipelineRegistrationPolicy
	other := eventlogger.WithNodeRegistrationPolicy
	if node {
		same, other = other, same
	}
	switch dress {
	case 1:
		opts = append([]eventlogger.Option{nil}, opts...)
	case 2:
		if pol != 0 {
			opts = append([]eventlogger.Option{same(opposite)}, opts...)
		}
	case 3:
		opts = append(opts, other(opposite))
	case 4:
		opts = append([]eventlogger.Option{same("NoSuchPolicy")}, opts...)
	}
	return opts
}

func nids(ids []string) []eventlogger.NodeID {
	out := make([]eventlogger.NodeID, len(ids))
	for i, s := range ids {
		out[i] = eventlogger.NodeID(s)
	}
	return out
}

// Apply executes one op.
func (x *Exec) Apply(op Op) Result {
	x.Hist = append(x.Hist, op)
	ctx := context.Background()
	_ = ctx
	var r Result
	switch op.K {
	case "newbroker":
		// only meaningful as the first call of a history: the Broker is built with policy options of its own, which
		// are documented as accepted and not applied (registrations without an option stay AllowOverwrite)
		var opts []eventlogger.Option
		if op.V&1 != 0 {
			opts = append(opts, eventlogger.WithNodeRegistrationPolicy(eventlogger.DenyOverwrite))
		}
		if op.V&2 != 0 {
			opts = append(opts, eventlogger.WithPipelineRegistrationPolicy(eventlogger.DenyOverwrite))
		}
		if b, err := eventlogger.NewBroker(opts...); err == nil {
			x.B = b
			x.Stopped = nil
		}
	case "regnode":
		x.ninst++
		if op.Reuse && x.Last[op.N] != nil && x.Closes(x.Last[op.N]) == 0 {
			// the very same object again (only the policy may differ)
			n := x.Last[op.N]
			x.All = append(x.All, n)
			r.Err = x.B.RegisterNode(eventlogger.NodeID(op.N), x.LastObj[op.N], dressed(true, op.Pol, op.Dress)...)
			break
		}
		n := &nodes.N{W: x.W, Name: fmt.Sprintf("%s#%d", op.N, x.ninst), ID: op.N, T: eventlogger.NodeType(op.NT), SinkReturnsEvent: op.SinkRet}
		if op.CloseErr {
			n.CloseErr = fmt.Errorf("close of %s failed", n.Name)
			switch op.CloseKind % 3 {
			case 1:
				n.CloseErr = fmt.Errorf("close of %s interrupted: %w", n.Name, context.Canceled)
			case 2:
				n.CloseErr = context.DeadlineExceeded
			}
		}
		if x.NewNode != nil {
			x.NewNode(op, n)
		}
		x.All = append(x.All, n)
		var obj eventlogger.Node = n
		switch op.Shape {
		case 1:
			obj = &nodes.WrapPlain{Inner: n}
		case 2:
			w := &nodes.WrapCloser{Inner: n}
			x.Wrappers[n] = w
			obj = w
		case 3:
			obj = nodes.Uncomparable{Inner: n, Pad: []int{1}}
		case 4:
			// 12 to 100 decorators around the closable node (nothing bounds the length of an Unwrap chain)
			obj = nodes.WrapDeep(n, [...]int{12, 31, 32, 33, 100}[x.ninst%5])
		case 5:
			obj = nodes.UncomparableWrap{Inner: n, Pad: []int{1}} // held by value, not hashable, Unwrap only
		}
		r.Err = x.B.RegisterNode(eventlogger.NodeID(op.N), obj, dressed(true, op.Pol, op.Dress)...)
		if r.Err == nil {
			x.Last[op.N] = n
			x.LastObj[op.N] = obj
		}
	case "regpipe":
		// the caller owns the NodeIDs slice: it is overwritten right after the call, as a caller that reuses one
		// buffer for the next definition would
		callerIDs := append(make([]eventlogger.NodeID, 0, len(op.IDs)+4), nids(op.IDs)...)
		r.Err = x.B.RegisterPipeline(eventlogger.Pipeline{PipelineID: eventlogger.PipelineID(op.P), EventType: eventlogger.EventType(op.ET), NodeIDs: callerIDs}, dressed(false, op.Pol, op.Dress)...)
		for i := range callerIDs {
			callerIDs[i] = "overwritten-by-the-caller"
		}
		x.keep = append(x.keep, callerIDs)
		if r.Err == nil {
			x.gen++
			p := &Pipe{Key: PKey{eventlogger.EventType(op.ET), eventlogger.PipelineID(op.P)}, IDs: append([]string(nil), op.IDs...), Gen: x.gen}
			for _, id := range op.IDs {
				p.Insts = append(p.Insts, x.Last[id])
			}
			x.Pipes[p.Key] = p
		}
	case "rmpipe":
		r.Err = x.B.RemovePipeline(eventlogger.EventType(op.ET), eventlogger.PipelineID(op.P))
		if r.Err == nil {
			delete(x.Pipes, PKey{eventlogger.EventType(op.ET), eventlogger.PipelineID(op.P)})
		}
	case "rpan":
		r.OK, r.Err = x.B.RemovePipelineAndNodes(ctxFor(op), eventlogger.EventType(op.ET), eventlogger.PipelineID(op.P))
		if r.OK {
			delete(x.Pipes, PKey{eventlogger.EventType(op.ET), eventlogger.PipelineID(op.P)})
		}
	case "rmnode":
		r.Err = x.B.RemoveNode(ctxFor(op), eventlogger.NodeID(op.N))
	case "thr":
		r.Err = x.B.SetSuccessThreshold(eventlogger.EventType(op.ET), op.V)
	case "thrsinks":
		r.Err = x.B.SetSuccessThresholdSinks(eventlogger.EventType(op.ET), op.V)
	case "reopen":
		r.Err = x.B.Reopen(ctx)
	case "stoptime":
		if op.V >= 0 && op.V < len(StopTimes) {
			x.B.StopTimeAt(StopTimes[op.V])
			t := StopTimes[op.V]
			x.Stopped = &t
		}
	}
	return r
}

func ctxFor(op Op) context.Context {
	if op.CtxDone {
		c, cancel := context.WithCancel(context.Background())
		cancel()
		return c
	}
	return context.Background()
}

// Closes is the number of times the broker closed this instance: for a Closer+Unwrapper wrapper the
// wrapper's own Close counts and the wrapped node must never be closed directly.
func (x *Exec) Closes(n *nodes.N) int {
	if w, ok := x.Wrappers[n]; ok {
		return int(w.OwnCloses.Load()) + 1000*int(n.Closes.Load())
	}
	return int(n.Closes.Load())
}

// Replay builds a fresh Exec by applying a history.
func Replay(hist []Op, newNode func(op Op, n *nodes.N)) *Exec {
	x := NewExec()
	x.NewNode = newNode
	for _, op := range hist {
		x.Apply(op)
	}
	return x
}

// PipesOf returns the tracked pipelines of a type, sorted by pipeline id.
func (x *Exec) PipesOf(et string) []*Pipe {
	var out []*Pipe
	for k, p := range x.Pipes {
		if string(k.ET) == et {
			out = append(out, p)
		}
	}
	sort.Slice(out, func(i, j int) bool { return out[i].Key.P < out[j].Key.P })
	return out
}

// NewSend prepares the payload of one Send.
func (x *Exec) NewSend(script map[*nodes.N]nodes.Behav) *nodes.Lin {
	x.sends++
	return &nodes.Lin{Path: fmt.Sprintf("S%d", x.sends), SendID: x.sends, Script: script}
}

// Traversal is the expected course of one pipeline for one Send.
type Traversal struct {
	Pipe  *Pipe
	Calls []ExpCall
	End   string // "complete" | "warn"
	EndID string // node id reported in Complete()
	Sink  bool   // the completing node is of type sink
	Err   error
}

type ExpCall struct {
	Node    *nodes.N
	Lineage string
}

func (c ExpCall) Key() string { return c.Node.Name + "@" + c.Lineage }

// Expect simulates every tracked pipeline of type et for the given send.
func (x *Exec) Expect(et string, lin *nodes.Lin) []Traversal {
	var out []Traversal
	for _, p := range x.PipesOf(et) {
		tr := Traversal{Pipe: p}
		lineage := lin.Path
		for i, n := range p.Insts {
			tr.Calls = append(tr.Calls, ExpCall{n, lineage})
			b, ok := lin.Script[n]
			if !ok {
				b = n.Default
			}
			end := n.Ends(b)
			if end == "next" && i == len(p.Insts)-1 {
				end = "complete"
			}
			if end == "next" {
				if b == nodes.Replace {
					lineage += "/" + n.Name
				}
				continue
			}
			tr.End = end
			tr.EndID = p.IDs[i]
			tr.Sink = n.T == eventlogger.NodeTypeSink
			if end == "warn" {
				tr.Err = n.ErrForKind(lin.SendID, lin.ErrKind[n])
			}
			break
		}
		out = append(out, tr)
	}
	return out
}

// ProbeSend sends an all-default event of type et and returns the sorted
// multiset of "instance@lineage" invocations (the pipelines that receive events).
func (x *Exec) ProbeSend(et string) ([]string, eventlogger.Status, error) {
	x.W.Reset()
	lin := x.NewSend(nil)
	st, err := x.B.Send(context.Background(), eventlogger.EventType(et), lin)
	var ks []string
	for _, c := range x.W.Calls() {
		l := c.InLineage
		// normalise the send id away so that copies are comparable
		if i := strings.Index(l, "/"); i >= 0 {
			l = "S" + l[i:]
		} else {
			l = "S"
		}
		ks = append(ks, c.Node.Name+"@"+l)
	}
	sort.Strings(ks)
	return ks, st, err
}
