// Package encrun runs encrypt.Filter on generated payloads and collects the
// C09 / C10 findings.
package encrun

import (
	"context"
	"errors"
	"fmt"
	"reflect"
	"sort"
	"strings"
	"time"

	"github.com/hashicorp/eventlogger"
	"github.com/hashicorp/eventlogger/filters/encrypt"
	wrapping "github.com/hashicorp/go-kms-wrapping/v2"
	"github.com/hashicorp/go-kms-wrapping/v2/aead"
	"pgregory.net/rapid"
	"verif/harness/internal/cryptoref"
	"verif/harness/internal/payload"
)

// FCfg is the generated filter configuration.
type FCfg struct {
	Overrides map[string]string
	Wrapper   string // ok | absent | failing (from the k-th call on) | failing-once (only the k-th call) | foreign
	FailAt    int
	Salt      bool
	Info      bool
}

func (c FCfg) String() string {
	var ks []string
	for k, v := range c.Overrides {
		if v == "" {
			v = "none"
		}
		ks = append(ks, k+"->"+v)
	}
	sort.Strings(ks)
	w := c.Wrapper
	if w == "failing" || w == "failing-once" {
		w = fmt.Sprintf("%s@%d", w, c.FailAt)
	}
	return fmt.Sprintf("filter{overrides=[%s] wrapper=%s salt=%v info=%v}", strings.Join(ks, " "), w, c.Salt, c.Info)
}

func GenFCfg(t *rapid.T, faults bool) FCfg {
	c := FCfg{Overrides: map[string]string{}, Wrapper: "ok"}
	for _, cls := range []string{"public", "sensitive", "secret"} {
		if rapid.IntRange(0, 9).Draw(t, "ov?"+cls) < 3 {
			c.Overrides[cls] = rapid.SampledFrom([]string{"", "redact", "encrypt", "hmac-sha256"}).Draw(t, "ov-"+cls)
		}
	}
	if len(c.Overrides) == 0 {
		c.Overrides = nil
	}
	if faults {
		c.Wrapper = rapid.SampledFrom([]string{"ok", "ok", "ok", "ok", "ok", "ok", "ok", "ok", "absent", "failing", "failing-once", "failing-once", "foreign"}).Draw(t, "wrapper")
		c.FailAt = rapid.IntRange(0, 5).Draw(t, "failAt")
	}
	c.Salt = rapid.Bool().Draw(t, "salt")
	c.Info = rapid.Bool().Draw(t, "info")
	return c
}

func (c FCfg) PCfg() payload.Cfg { return payload.Cfg{Overrides: c.Overrides} }

// foreignWrapper delegates to an aead wrapper but is not one (HKDF derivation
// refuses it) and can fail at the k-th Encrypt.
type foreignWrapper struct {
	inner  *aead.Wrapper
	failAt int
	once   bool
	n      int
}

func (w *foreignWrapper) Type(ctx context.Context) (wrapping.WrapperType, error) {
	return w.inner.Type(ctx)
}
func (w *foreignWrapper) KeyId(ctx context.Context) (string, error) { return w.inner.KeyId(ctx) }
func (w *foreignWrapper) SetConfig(ctx context.Context, o ...wrapping.Option) (*wrapping.WrapperConfig, error) {
	return w.inner.SetConfig(ctx, o...)
}
func (w *foreignWrapper) Encrypt(ctx context.Context, p []byte, o ...wrapping.Option) (*wrapping.BlobInfo, error) {
	w.n++
	if w.failAt >= 0 && ((!w.once && w.n > w.failAt) || (w.once && w.n == w.failAt+1)) {
		return nil, errors.New("harness wrapper: injected encryption failure")
	}
	return w.inner.Encrypt(ctx, p, o...)
}
func (w *foreignWrapper) Decrypt(ctx context.Context, b *wrapping.BlobInfo, o ...wrapping.Option) ([]byte, error) {
	return w.inner.Decrypt(ctx, b, o...)
}

var Key = cryptoref.NewKey(99)

func (c FCfg) Filter() *encrypt.Filter {
	f := &encrypt.Filter{}
	switch c.Wrapper {
	case "ok":
		f.Wrapper = Key.Wrapper()
	case "failing":
		f.Wrapper = &foreignWrapper{inner: Key.Wrapper(), failAt: c.FailAt}
	case "failing-once":
		f.Wrapper = &foreignWrapper{inner: Key.Wrapper(), failAt: c.FailAt, once: true}
	case "foreign":
		f.Wrapper = &foreignWrapper{inner: Key.Wrapper(), failAt: -1}
	}
	if c.Salt {
		f.HmacSalt = []byte("salt")
	}
	if c.Info {
		f.HmacInfo = []byte("info")
	}
	if c.Overrides != nil {
		f.FilterOperationOverrides = map[encrypt.DataClassification]encrypt.FilterOperation{}
		for k, v := range c.Overrides {
			f.FilterOperationOverrides[encrypt.DataClassification(k)] = encrypt.FilterOperation(v)
		}
	}
	return f
}

// Result of one Process call on a generated payload.
type Result struct {
	In, Twin payload.Built
	InEvent  *eventlogger.Event
	Out      *eventlogger.Event
	Err      error
	Panic    interface{}
	Findings []payload.Finding
	AllNone  bool
}

var created = time.Date(2026, 4, 5, 6, 7, 8, 9, time.UTC)

// Run builds the payload twice, processes one copy and compares.
func Run(p payload.Payload, c FCfg) (*Result, error) { return RunOn(nil, p, c) }

// RunOn is Run on an existing filter (whose configuration must be what c describes).
func RunOn(f *encrypt.Filter, p payload.Payload, c FCfg) (*Result, error) {
	pc := c.PCfg()
	r := &Result{In: payload.Build(p, pc), Twin: payload.Build(p, pc), AllNone: pc.AllNone()}
	if err := payload.SelfCheck(r.Twin); err != nil {
		return nil, err
	}
	if f == nil {
		f = c.Filter()
	}
	f.IgnoreTypes = r.Twin.IgnoreTypes
	r.InEvent = &eventlogger.Event{Type: "t", CreatedAt: created, Formatted: map[string][]byte{"pre": []byte("x")}, Payload: r.In.Value}
	func() {
		defer func() {
			if x := recover(); x != nil {
				r.Panic = x
			}
		}()
		r.Out, r.Err = f.Process(context.Background(), r.InEvent)
	}()
	if r.Panic != nil {
		r.Findings = append(r.Findings, payload.Finding{Prop: "C09", Sig: "panic:top=" + p.Top, Msg: fmt.Sprintf("Process panicked: %v", r.Panic)})
		return r, nil
	}
	// the caller's event and payload are untouched (C10)
	r.Findings = append(r.Findings, payload.CompareInput(r.Twin, r.In.Value)...)
	if r.InEvent.Type != "t" || !r.InEvent.CreatedAt.Equal(created) || len(r.InEvent.Formatted) != 1 || string(r.InEvent.Formatted["pre"]) != "x" {
		r.Findings = append(r.Findings, payload.Finding{Prop: "C10", Sig: "input-event-mutated", Msg: "the caller's event header / format table was modified"})
	}
	if r.Twin.MustFail != "" && r.Err == nil && !r.AllNone && true {
		r.Findings = append(r.Findings, payload.Finding{Prop: "C09", Sig: "fail-open:bad-tag-pointer", Msg: "Process returned no error although " + r.Twin.MustFail + ": it must fail and forward nothing"})
		return r, nil
	}
	if r.Err != nil {
		if r.Out != nil {
			r.Findings = append(r.Findings, payload.Finding{Prop: "C09", Sig: "fail-open", Msg: fmt.Sprintf("Process returned an event together with the error %v", r.Err)})
		}
		return r, nil
	}
	if r.Out == nil {
		r.Findings = append(r.Findings, payload.Finding{Prop: "C10", Sig: "dropped", Msg: "Process dropped an ordinary event without error"})
		return r, nil
	}
	// the forwarded event has the input's shape: the keys of its format table are preserved (C10)
	if len(r.Out.Formatted) != 1 || r.Out.Formatted["pre"] == nil {
		r.Findings = append(r.Findings, payload.Finding{Prop: "C10", Sig: "format-table-keys", Msg: fmt.Sprintf("the input event carried one pre-formatted entry (key \"pre\"), the forwarded event's format table has %d entries: container lengths and keys are not preserved", len(r.Out.Formatted))})
	}
	if r.AllNone || p.Top == payload.TNil || p.Top == payload.TTypedNil || p.Top == payload.TZero {
		// forwarded unchanged
		if r.Out.Type != "t" || !r.Out.CreatedAt.Equal(created) {
			r.Findings = append(r.Findings, payload.Finding{Prop: "C10", Sig: "unchanged-clause", Msg: "event header changed although nothing had to be filtered"})
		}
		ta, oa := payload.Atoms(r.Twin.Value), payload.Atoms(r.Out.Payload)
		if !reflect.DeepEqual(ta, oa) || reflect.TypeOf(r.Out.Payload) != reflect.TypeOf(r.Twin.Value) {
			r.Findings = append(r.Findings, payload.Finding{Prop: "C10", Sig: "unchanged-clause", Msg: "payload changed although all operations are none / the payload is nil or zero"})
		}
		return r, nil
	}
	r.Findings = append(r.Findings, payload.CompareOutput(p, r.Twin, r.Out.Payload)...)
	if r.Out.Type != "t" || !r.Out.CreatedAt.Equal(created) {
		r.Findings = append(r.Findings, payload.Finding{Prop: "C10", Sig: "header", Msg: "forwarded event has a different type / creation time"})
	}
	return r, nil
}

// Containers lists the distinct container kinds under which protected leaves sit.
func Containers(b payload.Built) (int, map[string]bool) {
	kinds := map[string]bool{}
	n := 0
	for _, l := range b.Leaves {
		if l.Canary == "" || l.Exp == payload.Untouched {
			continue
		}
		n++
		kinds[l.Under] = true
	}
	return n, kinds
}
