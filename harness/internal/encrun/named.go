package encrun

// Named struct types, several of them function-local types that share one name (and package path) while
// carrying different class tags: whatever a filter remembers about a type must be keyed by the type itself.

import "fmt"

// NamedCase builds one payload of a hand-declared named type.
type NamedCase struct {
	Name  string
	Build func(tag string) (payload interface{}, fields map[string]string) // field name -> class ("public","secret","sensitive","")
	Get   func(payload interface{}) map[string]string                      // field name -> current value
}

// Value is the plaintext put into field f of a case built with tag.
func Value(tag, f string) string { return fmt.Sprintf("PLAIN-%s-%s-value", tag, f) }

type Rec struct { // package-level type with the same name as the local ones below
	A string `class:"secret"`
	B string `class:"public"`
	C string `class:"sensitive"`
}

func caseLocal1() NamedCase {
	type Rec struct {
		A string `class:"public"`
		B string `class:"public"`
		C string `class:"public"`
	}
	return NamedCase{"local Rec #1 (all public)",
		func(tag string) (interface{}, map[string]string) {
			return &Rec{Value(tag, "A"), Value(tag, "B"), Value(tag, "C")}, map[string]string{"A": "public", "B": "public", "C": "public"}
		},
		func(p interface{}) map[string]string {
			r := p.(*Rec)
			return map[string]string{"A": r.A, "B": r.B, "C": r.C}
		}}
}

func caseLocal2() NamedCase {
	type Rec struct {
		A string `class:"public"`
		B string `class:"secret"`
		C string `class:"sensitive"`
	}
	return NamedCase{"local Rec #2 (public, secret, sensitive)",
		func(tag string) (interface{}, map[string]string) {
			return &Rec{Value(tag, "A"), Value(tag, "B"), Value(tag, "C")}, map[string]string{"A": "public", "B": "secret", "C": "sensitive"}
		},
		func(p interface{}) map[string]string {
			r := p.(*Rec)
			return map[string]string{"A": r.A, "B": r.B, "C": r.C}
		}}
}

func caseLocal3() NamedCase {
	type Rec struct {
		A string `class:"sensitive"`
		B string
		C string `class:"public"`
	}
	return NamedCase{"local Rec #3 (sensitive, untagged, public)",
		func(tag string) (interface{}, map[string]string) {
			return &Rec{Value(tag, "A"), Value(tag, "B"), Value(tag, "C")}, map[string]string{"A": "sensitive", "B": "", "C": "public"}
		},
		func(p interface{}) map[string]string {
			r := p.(*Rec)
			return map[string]string{"A": r.A, "B": r.B, "C": r.C}
		}}
}

func casePackage() NamedCase {
	return NamedCase{"package-level Rec (secret, public, sensitive)",
		func(tag string) (interface{}, map[string]string) {
			return &Rec{Value(tag, "A"), Value(tag, "B"), Value(tag, "C")}, map[string]string{"A": "secret", "B": "public", "C": "sensitive"}
		},
		func(p interface{}) map[string]string {
			r := p.(*Rec)
			return map[string]string{"A": r.A, "B": r.B, "C": r.C}
		}}
}

// NamedCases returns the catalogue.
func NamedCases() []NamedCase {
	return []NamedCase{casePackage(), caseLocal2(), caseLocal3(), caseLocal1()}
}
