package encrun

// Named struct types, several of them function-local types that share one name (and package path) while
// carrying different class tags: whatever a filter remembers about a type must be keyed by the type itself.

import "fmt"

// NamedCase builds one payload of a hand-declared named type.
type NamedCase struct {
	Name  string
	Build func(tag string) (payload interface{}, fields map[string]string) // field name -> class ("public","secret","sensitive","")
	Get   func(payload interface{}) map[string]string                      // field name -> current value
}

// Value is the plaintext put into field f of a case built with tag.
func Value(tag, f string) string { return fmt.Sprintf("PLAIN-%s-%s-value", tag, f) }

type Rec struct { // package-level type with the same name as the local ones below
	A string `class:"secret"`
	B string `class:"public"`
	C string `class:"sensitive"`
}

func caseLocal1() NamedCase {
	type Rec struct {
		A string `class:"public"`
		B string `class:"public"`
		C string `class:"public"`
	}
	return NamedCase{"local Rec #1 (all public)",
		func(tag string) (interface{}, map[string]string) {
			return &Rec{Value(tag, "A"), Value(tag, "B"), Value(tag, "C")}, map[string]string{"A": "public", "B": "public", "C": "public"}
		},
		func(p interface{}) map[string]string {
			r := p.(*Rec)
			return map[string]string{"A": r.A, "B": r.B, "C": r.C}
		}}
}

func caseLocal2() NamedCase {
	type Rec struct {
		A string `class:"public"`
		B string `class:"secret"`
		C string `class:"sensitive"`
	}
	return NamedCase{"local Rec #2 (public, secret, sensitive)",
		func(tag string) (interface{}, map[string]string) {
			return &Rec{Value(tag, "A"), Value(tag, "B"), Value(tag, "C")}, map[string]string{"A": "public", "B": "secret", "C": "sensitive"}
		},
		func(p interface{}) map[string]string {
			r := p.(*Rec)
			return map[string]string{"A": r.A, "B": r.B, "C": r.C}
		}}
}

func caseLocal3() NamedCase {
	type Rec struct {
		A string `class:"sensitive"`
		B string
		C string `class:"public"`
	}
	return NamedCase{"local Rec #3 (sensitive, untagged, public)",
		func(tag string) (interface{}, map[string]string) {
			return &Rec{Value(tag, "A"), Value(tag, "B"), Value(tag, "C")}, map[string]string{"A": "sensitive", "B": "", "C": "public"}
		},
		func(p interface{}) map[string]string {
			r := p.(*Rec)
			return map[string]string{"A": r.A, "B": r.B, "C": r.C}
		}}
}

func casePackage() NamedCase {
	return NamedCase{"package-level Rec (secret, public, sensitive)",
		func(tag string) (interface{}, map[string]string) {
			return &Rec{Value(tag, "A"), Value(tag, "B"), Value(tag, "C")}, map[string]string{"A": "secret", "B": "public", "C": "sensitive"}
		},
		func(p interface{}) map[string]string {
			r := p.(*Rec)
			return map[string]string{"A": r.A, "B": r.B, "C": r.C}
		}}
}

// Mutually recursive named types (reflect.StructOf cannot build these): the protected leaves sit in a type that is
// reached again through a second type which has no string or byte field of its own.

type ReqA struct {
	Session *SessB // declared before the first string field of ReqA
	N       int
	Token   string `class:"secret"`
	Body    []byte `class:"sensitive"`
}

type SessB struct {
	Hits     int
	OpenedBy *ReqA
}

func caseRecursive2() NamedCase {
	return NamedCase{"mutually recursive ReqA -> SessB -> ReqA (secret, sensitive leaves at both levels)",
		func(tag string) (interface{}, map[string]string) {
			return &ReqA{Session: &SessB{Hits: 3, OpenedBy: &ReqA{N: 2, Token: Value(tag, "InnerToken"), Body: []byte(Value(tag, "InnerBody"))}}, N: 1,
					Token: Value(tag, "Token"), Body: []byte(Value(tag, "Body"))},
				map[string]string{"Token": "secret", "Body": "sensitive", "InnerToken": "secret", "InnerBody": "sensitive"}
		},
		func(p interface{}) map[string]string {
			r := p.(*ReqA)
			m := map[string]string{"Token": r.Token, "Body": string(r.Body)}
			if r.Session != nil && r.Session.OpenedBy != nil {
				m["InnerToken"], m["InnerBody"] = r.Session.OpenedBy.Token, string(r.Session.OpenedBy.Body)
			}
			return m
		}}
}

type NodeX struct {
	Next  []*NodeY // a slice of pointers to the second type, before the string field
	Label string   `class:"sensitive"`
	Note  string   `class:"public"`
}

type NodeY struct {
	Weight float64
	Back   map[string]*NodeZ
}

type NodeZ struct {
	Flag bool
	Up   *NodeX
}

func caseRecursive3() NamedCase {
	return NamedCase{"three-type cycle NodeX -> []*NodeY -> map[string]*NodeZ -> *NodeX (sensitive and public leaves)",
		func(tag string) (interface{}, map[string]string) {
			inner := &NodeX{Label: Value(tag, "InnerLabel"), Note: Value(tag, "InnerNote")}
			return &NodeX{Next: []*NodeY{{Weight: 1.5, Back: map[string]*NodeZ{"k": {Flag: true, Up: inner}}}}, Label: Value(tag, "Label"), Note: Value(tag, "Note")},
				map[string]string{"Label": "sensitive", "Note": "public", "InnerLabel": "sensitive", "InnerNote": "public"}
		},
		func(p interface{}) map[string]string {
			r := p.(*NodeX)
			m := map[string]string{"Label": r.Label, "Note": r.Note}
			if len(r.Next) == 1 && r.Next[0] != nil && r.Next[0].Back["k"] != nil && r.Next[0].Back["k"].Up != nil {
				m["InnerLabel"], m["InnerNote"] = r.Next[0].Back["k"].Up.Label, r.Next[0].Back["k"].Up.Note
			}
			return m
		}}
}

// the same cycle entered at the type that has no leaf of its own
func caseRecursiveEntry() NamedCase {
	return NamedCase{"SessB -> ReqA -> SessB entered at the leafless type",
		func(tag string) (interface{}, map[string]string) {
			return &SessB{Hits: 1, OpenedBy: &ReqA{Session: &SessB{Hits: 2, OpenedBy: &ReqA{Token: Value(tag, "InnerToken")}}, Token: Value(tag, "Token"), Body: []byte(Value(tag, "Body"))}},
				map[string]string{"Token": "secret", "Body": "sensitive", "InnerToken": "secret"}
		},
		func(p interface{}) map[string]string {
			r := p.(*SessB)
			m := map[string]string{}
			if r.OpenedBy != nil {
				m["Token"], m["Body"] = r.OpenedBy.Token, string(r.OpenedBy.Body)
				if r.OpenedBy.Session != nil && r.OpenedBy.Session.OpenedBy != nil {
					m["InnerToken"] = r.OpenedBy.Session.OpenedBy.Token
				}
			}
			return m
		}}
}

// NamedCases returns the catalogue.
func NamedCases() []NamedCase {
	return []NamedCase{casePackage(), caseLocal2(), caseLocal3(), caseLocal1(), caseRecursive2(), caseRecursive3(), caseRecursiveEntry()}
}
