package encrun

import (
	"context"
	"fmt"
	"reflect"
	"sort"
	"strings"
	"sync"
	"sync/atomic"

	"github.com/hashicorp/eventlogger"
	"github.com/hashicorp/eventlogger/filters/encrypt"
	"pgregory.net/rapid"
	"verif/harness/internal/payload"
)

// TagValues: a hand-built Taggable whose pointer tags name keys that are related as strings (one a prefix of
// another, equal up to case or surrounding white space) and whose public-tagged values include the empty
// string and containers. The keys' relation must not matter: every tag applies to exactly its own key.

// TV is a Taggable struct: its tags point into M. The filter works on a deep copy, which only carries exported
// fields, so the tags of a case are looked up by the case's id.
type TV struct {
	ID string `class:"public"`
	M  map[string]interface{}
}

var (
	tvTags sync.Map // case id -> []encrypt.PointerTag
	tvSeq  atomic.Int64
)

func (t *TV) Tags() ([]encrypt.PointerTag, error) {
	if v, ok := tvTags.Load(t.ID); ok {
		return v.([]encrypt.PointerTag), nil
	}
	return nil, fmt.Errorf("harness: no tags for case %q", t.ID)
}

var tvFamilies = [][]string{
	{"user", "username", "user_id", "users"},
	{"acct", "acct_no", "acct-no"},
	{"k1", "k10", "k100", "k"},
	{"name", "Name", "NAME"},
	{"x", "x ", " x"},
	{"a.b", "a", "a.b.c"},
}

type tvKey struct {
	key, class, op string
	val            interface{}
}

// TagValueCase draws one case, runs it and returns the findings plus a descriptor.
func TagValueCase(t *rapid.T) ([]payload.Finding, string, bool) {
	fam := rapid.SampledFrom(tvFamilies).Draw(t, "family")
	keys := rapid.SliceOfNDistinct(rapid.SampledFrom(fam), 2, len(fam), func(s string) string { return s }).Draw(t, "keys")
	if rapid.Bool().Draw(t, "shortestFirst") {
		sort.Slice(keys, func(i, j int) bool { return len(keys[i]) < len(keys[j]) })
	}
	keys = append(keys, "zz-unrelated")
	var ks []tvKey
	m := map[string]interface{}{"untagged": "PLAIN-untagged-value"}
	var tags []encrypt.PointerTag
	for i, k := range keys {
		e := tvKey{key: k}
		e.class = rapid.SampledFrom([]string{"public", "secret", "sensitive", "secret", "sensitive"}).Draw(t, fmt.Sprintf("class%d", i))
		e.val = fmt.Sprintf("PLAIN-%d-value-of-%q", i, k)
		if e.class == "public" {
			switch rapid.IntRange(0, 5).Draw(t, fmt.Sprintf("publicValue%d", i)) {
			case 0:
				e.val = ""
			case 1:
				e.val = " "
			case 2:
				e.val = []string{"read", "list"}
			case 3:
				e.val = map[string]interface{}{"env": "prod", "n": 3}
			case 4:
				e.val = []interface{}{"a", 1}
			}
		} else {
			e.op = rapid.SampledFrom([]string{"", "", "redact", "encrypt", "hmac-sha256"}).Draw(t, fmt.Sprintf("op%d", i))
		}
		ks = append(ks, e)
		m[k] = e.val
		tags = append(tags, encrypt.PointerTag{Pointer: "/M/" + k, Classification: encrypt.DataClassification(e.class), Filter: encrypt.FilterOperation(e.op)})
	}
	id := fmt.Sprintf("case-%d", tvSeq.Add(1))
	tvTags.Store(id, tags)
	defer tvTags.Delete(id)
	in := &TV{ID: id, M: m}
	twin := map[string]interface{}{}
	for k, v := range m {
		twin[k] = deepCopy(v)
	}
	var parts []string
	for _, e := range ks {
		parts = append(parts, fmt.Sprintf("%q:%s,%s=%v", e.key, e.class, e.op, e.val))
	}
	desc := strings.Join(parts, " ")
	f := &encrypt.Filter{Wrapper: Key.Wrapper(), HmacSalt: []byte("salt"), HmacInfo: []byte("info")}
	out, err := f.Process(context.Background(), &eventlogger.Event{Type: "t", Payload: in})
	var fs []payload.Finding
	add := func(prop, sig, msg string) {
		fs = append(fs, payload.Finding{Prop: prop, Sig: sig, Msg: msg})
	}
	if err != nil || out == nil {
		add("C09", "tagvalues:process-failed", fmt.Sprintf("Process failed on a well-formed Taggable: event=%v err=%v", out != nil, err))
		return fs, desc, true
	}
	if !reflect.DeepEqual(in.M, twin) {
		add("C10", "tagvalues:input-mutated", "Process modified the payload it was given")
	}
	o, ok := out.Payload.(*TV)
	if !ok || o == nil {
		add("C10", "tagvalues:type", fmt.Sprintf("forwarded payload has type %T", out.Payload))
		return fs, desc, true
	}
	if len(o.M) != len(twin) {
		add("C10", "tagvalues:keys", fmt.Sprintf("forwarded map has %d keys, the input %d", len(o.M), len(twin)))
	}
	for _, e := range ks {
		got := o.M[e.key]
		if e.class == "public" {
			if !reflect.DeepEqual(got, twin[e.key]) {
				add("C10", "tagvalues:public-changed", fmt.Sprintf("the public-classified value of key %q (%#v) was forwarded as %#v", e.key, twin[e.key], got))
			}
			continue
		}
		gs, isStr := got.(string)
		plain := twin[e.key].(string)
		op := e.op
		if op == "" {
			op = map[string]string{"secret": "redact", "sensitive": "encrypt"}[e.class]
		}
		switch {
		case !isStr:
			add("C09", "tagvalues:form", fmt.Sprintf("the %s value of key %q was forwarded as a %T", e.class, e.key, got))
		case strings.Contains(gs, plain):
			add("C09", "tagvalues:leak", fmt.Sprintf("the %s value of key %q is readable in the forwarded event", e.class, e.key))
		case op == "redact" && gs != encrypt.RedactedData,
			op == "encrypt" && !strings.HasPrefix(gs, "encrypted:"),
			op == "hmac-sha256" && !strings.HasPrefix(gs, "hmac-sha256:"):
			add("C09", "tagvalues:wrong-operation", fmt.Sprintf("key %q is tagged %s,%s (operation %s) but was forwarded as %q (the other tagged keys are %v)", e.key, e.class, e.op, op, trunc(gs), keys))
		}
	}
	if gs, _ := o.M["untagged"].(string); gs != encrypt.RedactedData {
		add("C09", "tagvalues:untagged", fmt.Sprintf("the untagged string was forwarded as %q", trunc(gs)))
	}
	return fs, desc, len(keys) >= 3
}

func trunc(s string) string {
	if len(s) > 40 {
		return s[:40] + "..."
	}
	return s
}

func deepCopy(v interface{}) interface{} {
	switch x := v.(type) {
	case []string:
		return append([]string(nil), x...)
	case []interface{}:
		return append([]interface{}(nil), x...)
	case map[string]interface{}:
		m := map[string]interface{}{}
		for k, e := range x {
			m[k] = e
		}
		return m
	}
	return v
}
