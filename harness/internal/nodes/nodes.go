// Package nodes provides scripted, recording harness nodes for the Broker checks.
package nodes

import (
	"context"
	"errors"
	"fmt"
	"sync"
	"sync/atomic"
	"time"

	"github.com/hashicorp/eventlogger"
	"github.com/hashicorp/go-multierror"
)

// Behav is what a node does with the event of one Send.
type Behav int

const (
	Pass    Behav = iota // return the event it got (sinks: see N.SinkReturnsEvent)
	Replace              // return a fresh *Event whose payload extends the lineage
	Drop                 // return nil, nil
	Fail                 // return a unique error
	FailEv               // return a unique error together with a non-nil event
)

func (b Behav) String() string {
	return [...]string{"pass", "replace", "drop", "fail", "fail+event"}[b]
}

// Lin is the payload used by the Broker checks. Path records the lineage
// (send id, then the name of every node that replaced the event).
type Lin struct {
	Path    string
	SendID  int
	Script  map[*N]Behav
	Block   map[*N]chan struct{} // nodes that block until the channel is closed
	Enter   func(n *N)           // optional callback when a node is entered (C12 re-entry, C03 bookkeeping)
	ErrKind map[*N]int           // flavour of the error a failing node returns (see ErrFor)
}

// Call is one recorded node invocation.
type Call struct {
	Node        *N
	SeqEnter    int64
	SeqExit     int64
	In          *eventlogger.Event
	InLineage   string
	SendID      int
	InType      eventlogger.EventType
	InPayload   interface{}
	InCreated   bool // CreatedAt non-zero
	InCreatedAt time.Time
	InFmtLen    int
	Out         *eventlogger.Event
	OutLineage  string
	Err         error
}

// World is the shared recorder of one case.
type World struct {
	seq     atomic.Int64
	mu      sync.Mutex
	calls   []Call
	Running atomic.Int64 // node invocations currently inside Process
}

func (w *World) Calls() []Call {
	w.mu.Lock()
	defer w.mu.Unlock()
	return append([]Call(nil), w.calls...)
}

func (w *World) Reset() {
	w.mu.Lock()
	w.calls = nil
	w.mu.Unlock()
}

func (w *World) Seq() int64 { return w.seq.Add(1) }

// NodeErr is the unique error value a failing node returns.
type NodeErr struct {
	Node *N
	Send int
	What string
}

func (e *NodeErr) Error() string {
	return fmt.Sprintf("harness node %s %s (send %d)", e.Node.Name, e.What, e.Send)
}

// N is a harness node.
type N struct {
	W    *World
	Name string // unique instance name
	ID   string // node id it was created for
	T    eventlogger.NodeType

	SinkReturnsEvent bool // a passing sink returns the event instead of nil
	Default          Behav

	Reopens   atomic.Int32
	Closes    atomic.Int32
	ReopenErr error
	CloseErr  error
	OnReopen  func(n *N)
	OnClose   func(n *N)
	OnType    func(n *N) // Type() is user code too: lets a test yield / delay inside the library's validation
	errs      sync.Map   // send id -> error
}

var _ eventlogger.Node = (*N)(nil)
var _ eventlogger.Closer = (*N)(nil)

func (n *N) Type() eventlogger.NodeType {
	if n.OnType != nil {
		n.OnType(n)
	}
	return n.T
}

func (n *N) Reopen() error {
	n.Reopens.Add(1)
	if n.OnReopen != nil {
		n.OnReopen(n)
	}
	return n.ReopenErr
}

func (n *N) Close(ctx context.Context) error {
	n.Closes.Add(1)
	if n.OnClose != nil {
		n.OnClose(n)
	}
	return n.CloseErr
}

// Error flavours: what kind of Go error value a failing node returns.
const (
	ErrPlain       = iota // a unique *NodeErr
	ErrMultiAgg           // a *multierror.Error aggregating three errors
	ErrMultiNil           // a typed-nil *multierror.Error inside a non-nil error interface
	ErrJoined             // errors.Join of two errors
	ErrWrapped            // fmt.Errorf("...: %w", err)
	ErrCtxDeadline        // looks like a context error (a node-owned timeout) although the Send's context is live
	ErrCtxCanceled        // wraps context.Canceled although the Send's context is live
	NumErrKinds
)

// ErrFor returns the error value this node returned (or would return) for a send:
// one value per (node, send), of the requested flavour.
func (n *N) ErrFor(send int) error { return n.ErrForKind(send, ErrPlain) }

func (n *N) ErrForKind(send, kind int) error {
	if v, ok := n.errs.Load(send); ok {
		return v.(errBox).err
	}
	base := &NodeErr{Node: n, Send: send, What: "failed"}
	var e error = base
	switch kind {
	case ErrMultiAgg:
		e = &multierror.Error{Errors: []error{base, &NodeErr{Node: n, Send: send, What: "second"}, &NodeErr{Node: n, Send: send, What: "third"}}}
	case ErrMultiNil:
		var me *multierror.Error
		e = me
	case ErrJoined:
		e = errors.Join(base, &NodeErr{Node: n, Send: send, What: "joined"})
	case ErrWrapped:
		e = fmt.Errorf("wrapped by node: %w", base)
	case ErrCtxDeadline:
		e = fmt.Errorf("node-owned write timeout: %w", errors.Join(context.DeadlineExceeded, base))
	case ErrCtxCanceled:
		e = fmt.Errorf("node gave up: %w", errors.Join(base, context.Canceled))
	}
	v, _ := n.errs.LoadOrStore(send, errBox{e})
	return v.(errBox).err
}

type errBox struct{ err error }

func (n *N) Process(ctx context.Context, e *eventlogger.Event) (*eventlogger.Event, error) {
	w := n.W
	c := Call{Node: n, SeqEnter: w.Seq(), In: e}
	w.Running.Add(1)
	var lin *Lin
	if e != nil {
		c.InType = e.Type
		c.InPayload = e.Payload
		c.InCreated = !e.CreatedAt.IsZero()
		c.InCreatedAt = e.CreatedAt
		c.InFmtLen = len(e.Formatted)
		lin, _ = e.Payload.(*Lin)
	}
	b := n.Default
	if lin != nil {
		c.InLineage = lin.Path
		c.SendID = lin.SendID
		if bb, ok := lin.Script[n]; ok {
			b = bb
		}
		if lin.Enter != nil {
			lin.Enter(n)
		}
		if ch, ok := lin.Block[n]; ok {
			<-ch
		}
	}
	var out *eventlogger.Event
	var err error
	switch b {
	case Pass:
		if n.T == eventlogger.NodeTypeSink && !n.SinkReturnsEvent {
			out = nil
		} else {
			out = e
		}
	case Replace:
		nl := &Lin{Path: c.InLineage + "/" + n.Name}
		if lin != nil {
			nl.SendID, nl.Script, nl.Block, nl.Enter = lin.SendID, lin.Script, lin.Block, lin.Enter
		}
		out = &eventlogger.Event{Type: e.Type, CreatedAt: e.CreatedAt, Formatted: map[string][]byte{}, Payload: nl}
	case Drop:
		out = nil
	case Fail:
		err = n.ErrForKind(c.SendID, kindOf(lin, n))
	case FailEv:
		err = n.ErrForKind(c.SendID, kindOf(lin, n))
		out = e
	}
	c.Out, c.Err = out, err
	if out != nil {
		if l, ok := out.Payload.(*Lin); ok {
			c.OutLineage = l.Path
		}
	}
	w.Running.Add(-1)
	c.SeqExit = w.Seq()
	w.mu.Lock()
	w.calls = append(w.calls, c)
	w.mu.Unlock()
	return out, err
}

func kindOf(lin *Lin, n *N) int {
	if lin == nil || lin.ErrKind == nil {
		return ErrPlain
	}
	return lin.ErrKind[n]
}

// ---------------------------------------------------------------------------
// node shapes beyond "pointer to a struct with optional Close"

// WrapPlain wraps a node and only exposes it through Unwrap (no Close of its own).
type WrapPlain struct{ Inner *N }

func (w *WrapPlain) Process(ctx context.Context, e *eventlogger.Event) (*eventlogger.Event, error) {
	return w.Inner.Process(ctx, e)
}
func (w *WrapPlain) Reopen() error              { return w.Inner.Reopen() }
func (w *WrapPlain) Type() eventlogger.NodeType { return w.Inner.Type() }
func (w *WrapPlain) Unwrap() eventlogger.Node   { return closerOnly{w.Inner} }

// WrapCloser wraps a node, exposes it through Unwrap AND has a Close of its own: the broker must
// close the wrapper (the outermost Closer), not the wrapped node.
type WrapCloser struct {
	Inner     *N
	OwnCloses atomic.Int32
}

func (w *WrapCloser) Process(ctx context.Context, e *eventlogger.Event) (*eventlogger.Event, error) {
	return w.Inner.Process(ctx, e)
}
func (w *WrapCloser) Reopen() error              { return w.Inner.Reopen() }
func (w *WrapCloser) Type() eventlogger.NodeType { return w.Inner.Type() }
func (w *WrapCloser) Unwrap() eventlogger.Node   { return closerOnly{w.Inner} }
func (w *WrapCloser) Close(ctx context.Context) error {
	w.OwnCloses.Add(1)
	if w.Inner.OnClose != nil {
		w.Inner.OnClose(w.Inner)
	}
	return w.Inner.CloseErr
}

// WrapLayer is one decorator in a chain of decorators: no Close of its own, Unwrap hands out the next layer.
type WrapLayer struct {
	Inner *N
	Next  eventlogger.Node
}

func (w *WrapLayer) Process(ctx context.Context, e *eventlogger.Event) (*eventlogger.Event, error) {
	return w.Inner.Process(ctx, e)
}
func (w *WrapLayer) Reopen() error              { return w.Inner.Reopen() }
func (w *WrapLayer) Type() eventlogger.NodeType { return w.Inner.Type() }
func (w *WrapLayer) Unwrap() eventlogger.Node   { return w.Next }

// WrapDeep wraps n in depth decorators (none of them a Closer); the innermost hands out the closable node.
func WrapDeep(n *N, depth int) eventlogger.Node {
	var cur eventlogger.Node = &WrapPlain{Inner: n}
	for i := 1; i < depth; i++ {
		cur = &WrapLayer{Inner: n, Next: cur}
	}
	return cur
}

// closerOnly is what Unwrap hands out: the inner node with its Close (counted on the inner N).
type closerOnly struct{ *N }

// Uncomparable is a node held BY VALUE whose dynamic type cannot be compared with == (slice field).
type Uncomparable struct {
	Inner *N
	Pad   []int
}

func (u Uncomparable) Process(ctx context.Context, e *eventlogger.Event) (*eventlogger.Event, error) {
	return u.Inner.Process(ctx, e)
}
func (u Uncomparable) Reopen() error                   { return u.Inner.Reopen() }
func (u Uncomparable) Type() eventlogger.NodeType      { return u.Inner.Type() }
func (u Uncomparable) Close(ctx context.Context) error { return u.Inner.Close(ctx) }

// UncomparableWrap is a decorator held BY VALUE whose dynamic type cannot be compared or hashed; it has no
// Close of its own and hands out the closable node through Unwrap.
type UncomparableWrap struct {
	Inner *N
	Pad   []int
}

func (u UncomparableWrap) Process(ctx context.Context, e *eventlogger.Event) (*eventlogger.Event, error) {
	return u.Inner.Process(ctx, e)
}
func (u UncomparableWrap) Reopen() error              { return u.Inner.Reopen() }
func (u UncomparableWrap) Type() eventlogger.NodeType { return u.Inner.Type() }
func (u UncomparableWrap) Unwrap() eventlogger.Node   { return closerOnly{u.Inner} }

// Ends reports how a traversal ends at this node under behaviour b:
// "next" (event handed on), "complete" (filtered / sink success), "warn".
func (n *N) Ends(b Behav) string {
	switch b {
	case Fail, FailEv:
		return "warn"
	case Drop:
		return "complete"
	case Pass:
		if n.T == eventlogger.NodeTypeSink && !n.SinkReturnsEvent {
			return "complete"
		}
	}
	return "next"
}
