// Package leak parses goroutine dumps to attribute leaks and hangs to library frames.
package leak

import (
	"runtime"
	"strings"
	"time"
)

const Lib = "github.com/hashicorp/eventlogger"

type G struct {
	Header string
	State  string
	Frames []string // function lines
	Text   string
}

func Dump() []G {
	buf := make([]byte, 1<<20)
	for {
		n := runtime.Stack(buf, true)
		if n < len(buf) {
			buf = buf[:n]
			break
		}
		buf = make([]byte, 2*len(buf))
	}
	var out []G
	for _, blk := range strings.Split(string(buf), "\n\n") {
		lines := strings.Split(strings.TrimSpace(blk), "\n")
		if len(lines) == 0 || !strings.HasPrefix(lines[0], "goroutine ") {
			continue
		}
		g := G{Header: lines[0], Text: blk}
		if i := strings.Index(lines[0], "["); i >= 0 {
			g.State = strings.TrimSuffix(strings.TrimSuffix(lines[0][i+1:], ":"), "]")
		}
		for _, l := range lines[1:] {
			if !strings.HasPrefix(l, "\t") {
				g.Frames = append(g.Frames, l)
			}
		}
		out = append(out, g)
	}
	return out
}

// With returns the goroutines having a frame containing any of subs.
func With(gs []G, subs ...string) []G {
	var out []G
	for _, g := range gs {
		hit := false
		for _, f := range g.Frames {
			for _, s := range subs {
				if strings.Contains(f, s) {
					hit = true
				}
			}
		}
		if hit {
			out = append(out, g)
		}
	}
	return out
}

// WaitGone polls until no goroutine has a frame containing any of subs; it
// returns the leftovers after the deadline.
func WaitGone(d time.Duration, subs ...string) []G {
	deadline := time.Now().Add(d)
	sleep := 50 * time.Microsecond
	for {
		left := With(Dump(), subs...)
		if len(left) == 0 {
			return nil
		}
		if time.Now().After(deadline) {
			return left
		}
		time.Sleep(sleep)
		if sleep < 20*time.Millisecond {
			sleep *= 2
		}
	}
}

// BlockedInLib returns library-frame goroutines blocked on a lock, channel or WaitGroup, or spinning inside the library.
func BlockedInLib(gs []G) []G {
	var out []G
	for _, g := range With(gs, Lib) {
		s := g.State
		if strings.Contains(s, "sync.") || strings.Contains(s, "chan ") || strings.Contains(s, "semacquire") || strings.Contains(s, "select") {
			out = append(out, g)
			continue
		}
		// not blocked but still executing library code itself (innermost frame in the library) long after the call
		// began: a loop that does not terminate
		if (strings.HasPrefix(s, "running") || strings.HasPrefix(s, "runnable")) && len(g.Frames) > 0 && strings.Contains(g.Frames[0], Lib) {
			out = append(out, g)
		}
	}
	return out
}
