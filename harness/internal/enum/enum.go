// Package enum enumerates all sequences over a finite alphabet up to a depth.
package enum

// Sequences calls f for every sequence of length 1..depth over alphabet whose
// running index falls into this shard; f returns false to stop.  The slice
// passed to f is reused.
func Sequences[T any](alphabet []T, depth, shard, nshards int, f func(seq []T) bool) bool {
	a := len(alphabet)
	idx := make([]int, depth)
	seq := make([]T, depth)
	var n int64
	for L := 1; L <= depth; L++ {
		for i := 0; i < L; i++ {
			idx[i] = 0
		}
		for {
			if int(n%int64(nshards)) == shard {
				for i := 0; i < L; i++ {
					seq[i] = alphabet[idx[i]]
				}
				if !f(seq[:L]) {
					return false
				}
			}
			n++
			p := L - 1
			for p >= 0 {
				idx[p]++
				if idx[p] < a {
					break
				}
				idx[p] = 0
				p--
			}
			if p < 0 {
				break
			}
		}
	}
	return true
}

// DFS enumerates sequences over alphabet in depth-first order up to depth.
// visit is called for every sequence; it returns whether the sequence may be
// extended (false prunes the subtree) and whether to continue at all.
// Sharding is by the index of the first two symbols.
func DFS[T any](alphabet []T, depth, shard, nshards int, visit func(seq []T) (extend bool, cont bool)) bool {
	seq := make([]T, 0, depth)
	var rec func(level int, prefixIdx int) bool
	rec = func(level int, prefixIdx int) bool {
		for i, a := range alphabet {
			idx := prefixIdx
			if level < 2 {
				idx = prefixIdx*len(alphabet) + i
			}
			if level == 1 && idx%nshards != shard {
				continue
			}
			seq = append(seq, a)
			extend, cont := true, true
			// depth-1 sequences are visited by shard 0 only; deeper ones by the shard of their 2-prefix
			if level >= 1 || shard == 0 {
				extend, cont = visit(seq)
			}
			if !cont {
				return false
			}
			if extend && level+1 < depth {
				if !rec(level+1, idx) {
					return false
				}
			}
			seq = seq[:len(seq)-1]
		}
		return true
	}
	return rec(0, 0)
}
