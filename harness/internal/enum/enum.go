// Package enum enumerates all sequences over a finite alphabet up to a depth.
package enum

// Sequences calls f for every sequence of length 1..depth over alphabet whose
// running index falls into this shard; f returns false to stop.  The slice
// passed to f is reused.
func Sequences[T any](alphabet []T, depth, shard, nshards int, f func(seq []T) bool) bool {
	a := len(alphabet)
	idx := make([]int, depth)
	seq := make([]T, depth)
	var n int64
	for L := 1; L <= depth; L++ {
		for i := 0; i < L; i++ {
			idx[i] = 0
		}
		for {
			if int(n%int64(nshards)) == shard {
				for i := 0; i < L; i++ {
					seq[i] = alphabet[idx[i]]
				}
				if !f(seq[:L]) {
					return false
				}
			}
			n++
			p := L - 1
			for p >= 0 {
				idx[p]++
				if idx[p] < a {
					break
				}
				idx[p] = 0
				p--
			}
			if p < 0 {
				break
			}
		}
	}
	return true
}
