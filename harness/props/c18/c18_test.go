// C18 — CloudEvents output is spec-conformant and, where required, verifiably signed.
package c18

import (
	"bytes"
	"context"
	"encoding/base64"
	"encoding/json"
	"errors"
	"fmt"
	"net/url"
	"reflect"
	"strings"
	"sync"
	"testing"
	"time"

	"github.com/hashicorp/eventlogger"
	"github.com/hashicorp/eventlogger/formatter_filters/cloudevents"
	"pgregory.net/rapid"
	"verif/harness/internal/jsonval"
	"verif/harness/internal/stats"
)

func TestMain(m *testing.M) { stats.Main(m, "C18") }

const rule = "rapid: payload kinds {plain JSON value, implements ID (incl. \"\"), implements Data (incl. nil), both, nil pointer / nil map of a type whose methods work on the nil value} x Format {unset, json, text, invalid} x Source {url, nil, empty} x Schema {unset, url, empty} x Signer {nil, recording (signatures with control / quote / non-printable characters), failing, panicking} x listed/unlisted event type x predicate {nil,true,false,error} x event types with special characters; oracle = parse the stored document back (members, data JSON-equal to the payload/Data(), content type, schema, id, time), serialized decodes to exactly the bytes the signer was handed = the unsigned document, serialized_hmac = the signer's result, failing signer => error and nothing forwarded, unlisted types never signed; non-trivial = signed case with Data/ID payload, or failing signer on a listed type; distinct = case descriptor"

type idOnly struct {
	V  interface{} `json:"v"`
	id string
}

func (p *idOnly) ID() string { return p.id }

type dataOnly struct {
	Hidden string
	d      interface{}
}

func (p *dataOnly) Data() interface{} { return p.d }

type both struct {
	id string
	d  interface{}
}

func (p *both) ID() string        { return p.id }
func (p *both) Data() interface{} { return p.d }

var eventTypes = []string{"test-event", "a b", "quote\"type", "<tag>&", "ünï ☃", "x", " audit", "audit ", "audit\n", "AUDIT"}

var seenIDs = map[string]string{}

// blankURL is a *url.URL that renders as "" although it is not the zero struct (only bookkeeping fields set).
func blankURL(t *rapid.T) *url.URL {
	switch rapid.IntRange(0, 2).Draw(t, "blankKind") {
	case 0:
		return &url.URL{OmitHost: true}
	case 1:
		return &url.URL{RawPath: "%2F"}
	default:
		return &url.URL{ForceQuery: false, RawFragment: "x"}
	}
}

func jsonEq(a, b []byte) bool {
	da := json.NewDecoder(bytes.NewReader(a))
	da.UseNumber()
	db := json.NewDecoder(bytes.NewReader(b))
	db.UseNumber()
	var va, vb interface{}
	if da.Decode(&va) != nil || db.Decode(&vb) != nil {
		return false
	}
	return reflect.DeepEqual(va, vb)
}

// earlier keeps the documents of the last few events: a later Process call must not change what was stored
// for an earlier event (buffers recycled between calls, ...).
// nilSafe: methods with pointer receivers that work on a nil receiver; mapPayload: a named map type with methods.
// A nil value of such a type is a payload that implements the optional interfaces like any other.
var nilPayloadID string

type nilSafe struct{ X int }

func (p *nilSafe) ID() string { return nilPayloadID }
func (p *nilSafe) Data() interface{} {
	if p == nil {
		return map[string]interface{}{"receiver": "nil"}
	}
	return p.X
}

type mapPayload map[string]interface{}

func (m mapPayload) ID() string        { return nilPayloadID }
func (m mapPayload) Data() interface{} { return map[string]interface{}{"entries": len(m)} }

type earlierDoc struct {
	ev   *eventlogger.Event
	key  string
	doc  []byte
	desc string
}

var earlier []earlierDoc

func rememberAndRecheck(ev *eventlogger.Event, key, desc string) string {
	for _, old := range earlier {
		got, ok := old.ev.Format(old.key)
		if !ok || !bytes.Equal(got, old.doc) {
			return fmt.Sprintf("the document stored for an EARLIER event changed after later Process calls: was %q, now %q (earlier case: %s)", old.doc, got, old.desc)
		}
	}
	if doc, ok := ev.Format(key); ok {
		earlier = append(earlier, earlierDoc{ev, key, append([]byte(nil), doc...), desc})
		if len(earlier) > 8 {
			earlier = earlier[1:]
		}
	}
	return ""
}

func TestC18CloudEvents(t *testing.T) {
	sec := stats.Sec("cloudevents", rule)
	caseNo := 0
	rapid.Check(t, func(t *rapid.T) {
		caseNo++
		d := jsonval.Gen(t, rapid.IntRange(0, 3).Draw(t, "depth"), false)
		kind := rapid.SampledFrom([]string{"plain", "plain", "id", "idEmpty", "data", "dataNil", "both", "nilPointerWithMethods", "nilMapWithMethods", "nilPointerEmptyID"}).Draw(t, "payloadKind")
		format := rapid.SampledFrom([]cloudevents.Format{"", "", cloudevents.FormatJSON, cloudevents.FormatText, cloudevents.FormatText, "yaml"}).Draw(t, "format")
		source := rapid.SampledFrom([]string{"url", "url", "url", "url", "nil", "empty", "blank"}).Draw(t, "source")
		schema := rapid.SampledFrom([]string{"unset", "unset", "url", "empty", "blank"}).Draw(t, "schema")
		signer := rapid.SampledFrom([]string{"nil", "ok", "ok", "ok", "fail", "fail", "panic"}).Draw(t, "signer")
		// what a signature looks like is the signer's business: any valid UTF-8 string
		sigTail := rapid.SampledFrom([]string{"", "", "", "\x1f<mac>", "\x7f", "\x00lead", "quote\"back\\slash", "\U000e0001", "<&>", "line\nbreak", "\u2028"}).Draw(t, "signatureTail")
		et := rapid.SampledFrom(eventTypes).Draw(t, "eventType")
		listed := rapid.Bool().Draw(t, "listed")
		pred := rapid.SampledFrom([]string{"nil", "nil", "true", "false", "error", "true+error"}).Draw(t, "predicate")
		// any instant a time.Time can hold in years 1..9999, not only those an int64 of nanoseconds since 1970 can
		created := time.Date(rapid.SampledFrom([]int{2026, 2026, 2026, 1969, 1677, 1600, 2262, 2263, 3000, 9999, 1}).Draw(t, "year"), 5, 17, 20, 34, 58, rapid.IntRange(0, 999999999).Draw(t, "nanos"), time.FixedZone("x", rapid.SampledFrom([]int{0, 3600, -5 * 3600}).Draw(t, "zone")))
		desc := fmt.Sprintf("payload=%s(%s) format=%q source=%s schema=%s signer=%s sigTail=%q listed=%v type=%q pred=%s", kind, d, format, source, schema, signer, sigTail, listed, et, pred)

		dataVal := jsonval.Build(d)
		twin := jsonval.Build(d)
		fixedID := fmt.Sprintf("fixed-id-%d", caseNo)
		var payload interface{}
		wantID := ""
		var wantData interface{} = twin
		hasData := true
		switch kind {
		case "plain":
			payload = dataVal
			if twin == nil {
				hasData = false
			}
		case "id":
			payload, wantID = &idOnly{V: dataVal, id: fixedID}, fixedID
			wantData = &idOnly{V: twin}
		case "idEmpty":
			payload = &idOnly{V: dataVal, id: ""}
		case "data":
			payload = &dataOnly{Hidden: "must not appear", d: dataVal}
			if twin == nil {
				hasData = false
			}
		case "dataNil":
			payload, hasData = &dataOnly{Hidden: "must not appear"}, false
		case "both":
			payload, wantID = &both{id: fixedID, d: dataVal}, fixedID
			if twin == nil {
				hasData = false
			}
		case "nilPointerWithMethods":
			nilPayloadID = fixedID
			payload, wantID, wantData = (*nilSafe)(nil), fixedID, map[string]interface{}{"receiver": "nil"}
		case "nilMapWithMethods":
			nilPayloadID = fixedID
			payload, wantID, wantData = mapPayload(nil), fixedID, map[string]interface{}{"entries": 0}
		case "nilPointerEmptyID":
			nilPayloadID = ""
			payload = (*nilSafe)(nil)
		}
		f := &cloudevents.FormatterFilter{Format: format}
		switch source {
		case "url":
			f.Source, _ = url.Parse("https://example.test/src?a=1")
		case "empty":
			f.Source = &url.URL{}
		case "blank":
			f.Source = blankURL(t)
		}
		switch schema {
		case "url":
			f.Schema, _ = url.Parse("https://example.test/schema.json")
		case "empty":
			f.Schema = &url.URL{}
		case "blank":
			f.Schema = blankURL(t)
		}
		var signedInputs [][]byte
		signErr := errors.New("signer failed")
		switch signer {
		case "ok":
			f.Signer = func(_ context.Context, b []byte) (string, error) {
				signedInputs = append(signedInputs, append([]byte(nil), b...))
				return fmt.Sprintf("sig-%d-%d", caseNo, len(b)) + sigTail, nil
			}
		case "panic":
			f.Signer = func(_ context.Context, b []byte) (string, error) {
				signedInputs = append(signedInputs, append([]byte(nil), b...))
				panic("harness signer panics")
			}
		case "fail":
			f.Signer = func(_ context.Context, b []byte) (string, error) {
				signedInputs = append(signedInputs, append([]byte(nil), b...))
				return "", signErr
			}
		}
		// the list is a list of event types, not of patterns
		f.SignEventTypes = []string{"some-other-type", et + "x", "X" + et, "*", "?", "[a-z]*", et + "*", " " + et, et + " ", "\t" + et + "\n", strings.ToUpper(et) + "\x00"}
		if len(et) > 1 {
			f.SignEventTypes = append(f.SignEventTypes, et[:1]+"*", "*"+et[len(et)-1:])
		}
		if listed {
			f.SignEventTypes = append(f.SignEventTypes, et)
		}
		predErr := errors.New("predicate failed")
		predCalled := false
		switch pred {
		case "true":
			f.Predicate = func(context.Context, interface{}) (bool, error) { predCalled = true; return true, nil }
		case "false":
			f.Predicate = func(context.Context, interface{}) (bool, error) { predCalled = true; return false, nil }
		case "error":
			f.Predicate = func(context.Context, interface{}) (bool, error) { predCalled = true; return false, predErr }
		case "true+error":
			f.Predicate = func(context.Context, interface{}) (bool, error) { predCalled = true; return true, predErr }
		}
		ev := &eventlogger.Event{Type: eventlogger.EventType(et), CreatedAt: created, Formatted: map[string][]byte{}, Payload: payload}
		wantKey := string(cloudevents.FormatJSON)
		if format == cloudevents.FormatText {
			wantKey = string(cloudevents.FormatText)
		}
		if len(earlier) > 0 && earlier[len(earlier)-1].key == wantKey && (signer == "nil" || signer == "ok") && rapid.IntRange(0, 2).Draw(t, "fanOutCopy") == 0 {
			// a caller fanned an earlier event out by copying its table entry by entry: this event's table starts with
			// the earlier event's document (same storage)
			prev := earlier[len(earlier)-1]
			if doc, ok := prev.ev.Format(prev.key); ok {
				ev.Formatted[prev.key] = doc
			}
		}
		var out *eventlogger.Event
		var err error
		panicked := false
		func() {
			defer func() {
				if r := recover(); r != nil {
					panicked = true
					out, err = nil, fmt.Errorf("panic: %v", r)
				}
			}()
			out, err = f.Process(context.Background(), ev)
		}()
		if panicked && signer != "panic" {
			t.Fatalf("VIOLATION C18: Process panicked: %v\ncase: %s", err, desc)
		}

		invalid := format == "yaml" || source != "url" || schema == "empty" || schema == "blank" || kind == "idEmpty" || kind == "nilPointerEmptyID"
		if invalid {
			if err == nil || out != nil {
				t.Fatalf("VIOLATION C18: invalid configuration / empty ID accepted (event=%v err=%v)\ncase: %s", out != nil, err, desc)
			}
			sec.Case(false, desc, "rejected_config")
			return
		}
		mustSign := signer != "nil" && listed
		key := string(cloudevents.FormatJSON)
		if format == cloudevents.FormatText {
			key = string(cloudevents.FormatText)
		}
		if mustSign && (signer == "fail" || signer == "panic") {
			// a signer that panics has failed too: the panic may propagate or be turned into an error, but the event
			// must not be forwarded unsigned
			if err == nil || out != nil {
				t.Fatalf("VIOLATION C18: signing failed but the event was forwarded (event=%v err=%v)\ncase: %s", out != nil, err, desc)
			}
			if doc, ok := ev.Format(key); ok {
				var m map[string]json.RawMessage
				if json.Unmarshal(doc, &m) == nil {
					if _, has := m["serialized_hmac"]; !has {
						t.Fatalf("VIOLATION C18: signing failed but an unsigned document was stored for the event\ncase: %s", desc)
					}
				}
			}
			sec.Case(true, desc, "failing_signer_listed")
			return
		}
		switch pred {
		case "nil", "true":
			if err != nil || out == nil {
				t.Fatalf("VIOLATION C18: event not forwarded (err=%v)\ncase: %s", err, desc)
			}
		case "false":
			if err != nil || out != nil {
				t.Fatalf("VIOLATION C18: predicate false must drop the event (event=%v err=%v)\ncase: %s", out != nil, err, desc)
			}
		case "error", "true+error":
			if err == nil || out != nil {
				t.Fatalf("VIOLATION C18: predicate error must be an error (event=%v err=%v)\ncase: %s", out != nil, err, desc)
			}
		}
		if pred != "nil" && !predCalled {
			t.Fatalf("VIOLATION C18: predicate not consulted\ncase: %s", desc)
		}
		// read from the forwarded event; an event that is not forwarded need not have been formatted at all
		carrier := ev
		if out != nil {
			carrier = out
		}
		doc, ok := carrier.Format(key)
		if !ok {
			if out != nil {
				t.Fatalf("VIOLATION C18: nothing stored under %q\ncase: %s", key, desc)
			}
			sec.Case(false, desc, "not_forwarded_and_not_formatted")
			return
		}
		other := string(cloudevents.FormatText)
		if key == other {
			other = string(cloudevents.FormatJSON)
		}
		if _, ok := carrier.Format(other); ok {
			t.Fatalf("VIOLATION C18: document also stored under %q\ncase: %s", other, desc)
		}
		var m map[string]json.RawMessage
		dec := json.NewDecoder(bytes.NewReader(doc))
		if derr := dec.Decode(&m); derr != nil || dec.More() {
			t.Fatalf("VIOLATION C18: stored document is not one JSON document: %v\n%s\ncase: %s", derr, doc, desc)
		}
		if format == cloudevents.FormatText {
			var ind bytes.Buffer
			if json.Indent(&ind, bytes.TrimRight(doc, "\n"), "", cloudevents.TextIndent) != nil || !bytes.Equal(ind.Bytes(), bytes.TrimRight(doc, "\n")) {
				t.Fatalf("VIOLATION C18: text format is not indented with %q:\n%s\ncase: %s", cloudevents.TextIndent, doc, desc)
			}
		} else if bytes.Count(bytes.TrimRight(doc, "\n"), []byte("\n")) != 0 {
			t.Fatalf("VIOLATION C18: json format spans several lines\ncase: %s", desc)
		}
		str := func(k string) (string, bool) {
			raw, ok := m[k]
			if !ok {
				return "", false
			}
			var s string
			if json.Unmarshal(raw, &s) != nil {
				return "", false
			}
			return s, true
		}
		id, _ := str("id")
		if id == "" {
			t.Fatalf("VIOLATION C18: empty id\ncase: %s", desc)
		}
		if wantID != "" && id != wantID {
			t.Fatalf("VIOLATION C18: id %q, payload's ID() is %q\ncase: %s", id, wantID, desc)
		}
		if wantID == "" {
			if prev, dup := seenIDs[id]; dup {
				t.Fatalf("VIOLATION C18: generated id %q was already used by %s\ncase: %s", id, prev, desc)
			}
			seenIDs[id] = desc
		}
		if s, _ := str("source"); s != f.Source.String() || s == "" {
			t.Fatalf("VIOLATION C18: source %q\ncase: %s", s, desc)
		}
		if s, _ := str("specversion"); s != "1.0" {
			t.Fatalf("VIOLATION C18: specversion %q\ncase: %s", s, desc)
		}
		if s, ok := str("type"); !ok || s != et || s == "" {
			t.Fatalf("VIOLATION C18: type %q, event type %q\ncase: %s", s, et, desc)
		}
		var tm time.Time
		if json.Unmarshal(m["time"], &tm) != nil || !tm.Equal(created) {
			t.Fatalf("VIOLATION C18: time %s is not the creation time %s\ncase: %s", m["time"], created, desc)
		}
		wantCT := cloudevents.DataContentTypeCloudEvents
		if format == cloudevents.FormatText {
			wantCT = cloudevents.DataContentTypeText
		}
		ct, ok1 := str("datacontentype")
		if !ok1 {
			ct, _ = str("datacontenttype")
		}
		if ct != wantCT {
			t.Fatalf("VIOLATION C18: data content type %q, want %q\ncase: %s", ct, wantCT, desc)
		}
		ds, hasDS := str("dataschema")
		if (schema == "url") != hasDS || (hasDS && ds != f.Schema.String()) {
			t.Fatalf("VIOLATION C18: dataschema %q (present=%v), configured %s\ncase: %s", ds, hasDS, schema, desc)
		}
		raw, gotData := m["data"]
		if hasData {
			want, merr := json.Marshal(wantData)
			if merr != nil {
				t.Skip("twin not encodable")
			}
			if !gotData || !jsonEq(raw, want) {
				t.Fatalf("VIOLATION C18: data %s is not the payload's JSON image %s\ncase: %s", raw, want, desc)
			}
		} else if gotData && string(raw) != "null" {
			t.Fatalf("VIOLATION C18: data %s present although the payload has no data\ncase: %s", raw, desc)
		}
		if strings.Contains(string(doc), "must not appear") {
			t.Fatalf("VIOLATION C18: the payload was embedded instead of its Data()\ncase: %s", desc)
		}
		_, hasSer := m["serialized"]
		_, hasMac := m["serialized_hmac"]
		if !mustSign {
			if hasSer || hasMac {
				t.Fatalf("VIOLATION C18: document is signed although no signer is configured or the type is not listed\ncase: %s", desc)
			}
			if len(signedInputs) != 0 {
				t.Fatalf("VIOLATION C18: the signer was called for a type that is not listed\ncase: %s", desc)
			}
		} else {
			ser, _ := str("serialized")
			mac, _ := str("serialized_hmac")
			if !hasSer || !hasMac || ser == "" {
				t.Fatalf("VIOLATION C18: forwarded event of a listed type is not signed\ncase: %s", desc)
			}
			if len(signedInputs) == 0 {
				t.Fatalf("VIOLATION C18: the document claims to be signed but the signer was never called\ncase: %s", desc)
			}
			rawSer, derr := base64.RawURLEncoding.DecodeString(ser)
			if derr != nil {
				t.Fatalf("VIOLATION C18: serialized is not raw-url base64: %v\ncase: %s", derr, desc)
			}
			// how often the signer is called is the formatter's business; the bytes it published must be bytes it signed
			signedIdx := -1
			for i := range signedInputs {
				if bytes.Equal(rawSer, signedInputs[i]) {
					signedIdx = i
				}
			}
			if signedIdx < 0 {
				t.Fatalf("VIOLATION C18: serialized does not decode to bytes that were signed\ncase: %s", desc)
			}
			if mac != fmt.Sprintf("sig-%d-%d", caseNo, len(signedInputs[signedIdx]))+sigTail {
				t.Fatalf("VIOLATION C18: serialized_hmac %q is not the signer's result\ncase: %s", mac, desc)
			}
			// the signed bytes are the unsigned document: same members minus the two signature members
			var um map[string]json.RawMessage
			if json.Unmarshal(rawSer, &um) != nil {
				t.Fatalf("VIOLATION C18: serialized does not decode to a JSON document\ncase: %s", desc)
			}
			if _, has := um["serialized"]; has {
				t.Fatalf("VIOLATION C18: the signed bytes already contain a signature member\ncase: %s", desc)
			}
			if len(um) != len(m)-2 {
				t.Fatalf("VIOLATION C18: unsigned document has %d members, signed one %d\ncase: %s", len(um), len(m), desc)
			}
			for k, v := range um {
				if !jsonEq(v, m[k]) {
					t.Fatalf("VIOLATION C18: member %q differs between the signed bytes and the stored document\ncase: %s", k, desc)
				}
			}
		}
		if msg := rememberAndRecheck(carrier, key, desc); msg != "" {
			t.Fatalf("VIOLATION C18: %s\ncase: %s", msg, desc)
		}
		cl := []string{"kind=" + kind, "signer=" + signer, fmt.Sprintf("listed=%v", listed), "format=" + string(format)}
		sec.Case(mustSign && kind != "plain", desc, cl...)
	})
}

// TestC18Reuse: one long-lived FormatterFilter whose exported Source / Schema / Format / SignEventTypes are
// re-assigned between events; every event is judged against the configuration in force when it was processed.
func TestC18Reuse(t *testing.T) {
	sec := stats.Sec("reuse", "rapid: one FormatterFilter processes 2-6 events; between events its exported Source, Schema, Format and SignEventTypes are re-assigned or, for the URLs, edited in place through the pointer the formatter holds (also back and forth, also to nil); oracle = the stored document reflects the configuration in force for that event (source, dataschema presence and value, content type, format key, signed iff listed); non-trivial = a field was changed between two events; distinct = history descriptor")
	rapid.Check(t, func(t *rapid.T) {
		srcs := []string{"https://a.example/src", "https://b.example/src?x=1"}
		schemas := []string{"", "https://a.example/schema", "https://b.example/schema"}
		signerFails := false
		f := &cloudevents.FormatterFilter{Signer: func(_ context.Context, b []byte) (string, error) {
			if signerFails {
				return "", errors.New("harness: signer failed")
			}
			return "sig", nil
		}}
		idsSeen := map[string]int{}
		n := rapid.IntRange(2, 8).Draw(t, "events")
		var hist []string
		changes := 0
		prev := ""
		for i := 0; i < n; i++ {
			src := rapid.SampledFrom(srcs).Draw(t, "src")
			sch := rapid.SampledFrom(schemas).Draw(t, "schema")
			fm := rapid.SampledFrom([]cloudevents.Format{"", cloudevents.FormatJSON, cloudevents.FormatText}).Draw(t, "format")
			listed := rapid.Bool().Draw(t, "listed")
			inPlace := rapid.Bool().Draw(t, "editInPlace") // the caller owns the URL values: edit them through the pointer the formatter holds
			if u, _ := url.Parse(src); inPlace && f.Source != nil {
				*f.Source = *u
			} else {
				f.Source = u
			}
			if sch == "" {
				f.Schema = nil
			} else if u, _ := url.Parse(sch); inPlace && f.Schema != nil {
				*f.Schema = *u
			} else {
				f.Schema = u
			}
			f.Format = fm
			f.SignEventTypes = nil
			if listed {
				f.SignEventTypes = []string{"T"}
			}
			cfg := fmt.Sprintf("{src=%s schema=%q format=%q listed=%v}", src, sch, fm, listed)
			if inPlace {
				hist = append(hist, "(URLs edited in place)")
			}
			if prev != "" && prev != cfg {
				changes++
			}
			prev = cfg
			hist = append(hist, cfg)
			// the signer may fail for some events (only matters when the type is listed): such an event is not forwarded
			signerFails = rapid.IntRange(0, 2).Draw(t, "signerFails") == 0
			ev := &eventlogger.Event{Type: "T", CreatedAt: time.Now(), Formatted: map[string][]byte{}, Payload: map[string]interface{}{"i": i}}
			out, err := f.Process(context.Background(), ev)
			if signerFails && listed {
				hist = append(hist, "(signer failed)")
				if err == nil || out != nil {
					t.Fatalf("VIOLATION C18: event %d: signing failed but the event was forwarded (event=%v err=%v)\nhistory: %v", i, out != nil, err, hist)
				}
				continue
			}
			if err != nil || out == nil {
				t.Fatalf("VIOLATION C18: event %d on a reused formatter failed: %v\nhistory: %v", i, err, hist)
			}
			ev = out
			key := string(cloudevents.FormatJSON)
			if fm == cloudevents.FormatText {
				key = string(cloudevents.FormatText)
			}
			doc, ok := ev.Format(key)
			if !ok {
				t.Fatalf("VIOLATION C18: event %d: nothing stored under %q\nhistory: %v", i, key, hist)
			}
			var m map[string]interface{}
			if json.Unmarshal(doc, &m) != nil {
				t.Fatalf("VIOLATION C18: event %d: stored document is not JSON\nhistory: %v", i, hist)
			}
			if m["source"] != src {
				t.Fatalf("VIOLATION C18: event %d: source %v, configured %s\nhistory: %v", i, m["source"], src, hist)
			}
			id, _ := m["id"].(string)
			if prevEv, dup := idsSeen[id]; dup || id == "" {
				t.Fatalf("VIOLATION C18: event %d was given the generated id %q, which the forwarded event %d of the same formatter already carries (ids are fresh and unique)\nhistory: %v", i, id, prevEv, hist)
			}
			idsSeen[id] = i
			ds, has := m["dataschema"]
			if (sch != "") != has || (has && ds != sch) {
				t.Fatalf("VIOLATION C18: event %d: dataschema %v (present=%v), configured %q\nhistory: %v", i, ds, has, sch, hist)
			}
			_, signed := m["serialized_hmac"]
			if signed != listed {
				t.Fatalf("VIOLATION C18: event %d: signed=%v although listed=%v\nhistory: %v", i, signed, listed, hist)
			}
			if signed {
				raw, _ := base64.RawURLEncoding.DecodeString(fmt.Sprint(m["serialized"]))
				var um map[string]interface{}
				if json.Unmarshal(raw, &um) != nil || um["source"] != src {
					t.Fatalf("VIOLATION C18: event %d: the signed bytes carry source %v, configured %s\nhistory: %v", i, um["source"], src, hist)
				}
			}
		}
		sec.Case(changes > 0, strings.Join(hist, " "), fmt.Sprintf("changes>0=%v", changes > 0))
	})
}

// TestC18IDVolume: generated ids stay unique over a large number of events (a generator with too little
// entropy only shows at volume).
func TestC18IDVolume(t *testing.T) {
	n := stats.EnvInt("C18_IDS", 100000)
	sec := stats.Sec("id_volume", fmt.Sprintf("%d events without an ID() of their own formatted by one FormatterFilter on 8 goroutines; oracle = every generated id is non-empty and no id occurs twice; non-trivial = every event; distinct = id", n))
	src, _ := url.Parse("https://example.test/src")
	f := &cloudevents.FormatterFilter{Source: src, Format: cloudevents.FormatJSON}
	const workers = 8
	ids := make([][]string, workers)
	var wg sync.WaitGroup
	for w := 0; w < workers; w++ {
		wg.Add(1)
		go func(w int) {
			defer wg.Done()
			for i := 0; i < n/workers; i++ {
				ev := &eventlogger.Event{Type: "t", CreatedAt: time.Unix(1, 0), Formatted: map[string][]byte{}, Payload: i}
				out, err := f.Process(context.Background(), ev)
				if err != nil || out == nil {
					continue
				}
				doc, _ := out.Format(string(cloudevents.FormatJSON))
				var m struct {
					ID string `json:"id"`
				}
				_ = json.Unmarshal(doc, &m)
				ids[w] = append(ids[w], m.ID)
			}
		}(w)
	}
	wg.Wait()
	seen := make(map[string]struct{}, n)
	total := 0
	for _, l := range ids {
		for _, id := range l {
			total++
			if id == "" {
				stats.Violation("TestC18IDVolume", map[string]interface{}{"message": "empty generated id", "events": n})
				t.Fatalf("VIOLATION C18: empty generated id")
			}
			if _, dup := seen[id]; dup {
				stats.Violation("TestC18IDVolume", map[string]interface{}{"message": fmt.Sprintf("generated id %q occurs twice among %d events", id, total), "events": n})
				t.Fatalf("VIOLATION C18: generated id %q occurs twice among %d events", id, total)
			}
			seen[id] = struct{}{}
		}
	}
	for i := 0; i < 3; i++ {
		sec.Case(true, fmt.Sprintf("%d ids, all distinct (sample %d)", total, i), "volume")
	}
	sec.Set("ids_checked", total)
}
