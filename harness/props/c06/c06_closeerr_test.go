package c06

import (
	"context"
	"fmt"
	"testing"
	"time"

	"github.com/hashicorp/eventlogger"
	"verif/harness/internal/nodes"
	"verif/harness/internal/stats"
)

const ruleCloseErr = "enumeration: a pipeline of 2-4 nodes that no other pipeline lists (optionally a second pipeline sharing the formatter) x every subset of its nodes failing Close (plain error, error wrapping context.Canceled, context.DeadlineExceeded) x the context handed to RemovePipelineAndNodes (live, cancelled, past its deadline), each combination 8 times (the order in which the broker visits the nodes is not fixed); oracle = the call returns true, every node only this pipeline listed is closed exactly once and unregistered (registering a pipeline that lists it fails afterwards), the shared formatter is neither closed nor unregistered; non-trivial = a Close fails and the context is done; distinct = configuration"

// TestC06CloseErrors: "closes (once) and unregisters exactly those of its nodes that no remaining pipeline lists ...
// and returns true even if a Close reported an error".
func TestC06CloseErrors(t *testing.T) {
	sec := stats.Sec("close_errors", ruleCloseErr)
	for n := 2; n <= 4; n++ {
		for mask := 0; mask < 1<<n; mask++ {
			for errKind := 0; errKind < 3; errKind++ {
				if mask == 0 && errKind > 0 {
					continue
				}
				for ctxKind := 0; ctxKind < 3; ctxKind++ {
					for shared := 0; shared < 2; shared++ {
						d := fmt.Sprintf("nodes=%d failingCloseMask=%b errKind=%d ctx=%d sharedFormatter=%d", n, mask, errKind, ctxKind, shared)
						for rep := 0; rep < 8; rep++ {
							b, _ := eventlogger.NewBroker()
							w := &nodes.World{}
							var ns []*nodes.N
							var ids []eventlogger.NodeID
							for k := 0; k < n; k++ {
								nt := eventlogger.NodeTypeFilter
								if k == n-1 {
									nt = eventlogger.NodeTypeSink
								} else if k == n-2 {
									nt = eventlogger.NodeTypeFormatter
								}
								x := &nodes.N{W: w, Name: fmt.Sprintf("n%d", k), ID: fmt.Sprintf("n%d", k), T: nt}
								if mask&(1<<k) != 0 {
									switch errKind {
									case 0:
										x.CloseErr = fmt.Errorf("close of %s failed", x.Name)
									case 1:
										x.CloseErr = fmt.Errorf("close of %s interrupted: %w", x.Name, context.Canceled)
									default:
										x.CloseErr = context.DeadlineExceeded
									}
								}
								ns = append(ns, x)
								ids = append(ids, eventlogger.NodeID(x.ID))
								_ = b.RegisterNode(eventlogger.NodeID(x.ID), x)
							}
							if err := b.RegisterPipeline(eventlogger.Pipeline{PipelineID: "p", EventType: "T", NodeIDs: ids}); err != nil {
								t.Fatalf("harness: %v", err)
							}
							other := &nodes.N{W: w, Name: "os", ID: "os", T: eventlogger.NodeTypeSink}
							_ = b.RegisterNode("os", other)
							if shared == 1 {
								_ = b.RegisterPipeline(eventlogger.Pipeline{PipelineID: "q", EventType: "T", NodeIDs: []eventlogger.NodeID{ids[n-2], "os"}})
							}
							ctx, cancel := context.WithCancel(context.Background())
							switch ctxKind {
							case 1:
								cancel()
							case 2:
								cancel()
								ctx, cancel = context.WithDeadline(context.Background(), time.Now().Add(-time.Minute))
							}
							ok, _ := b.RemovePipelineAndNodes(ctx, "T", "p")
							cancel()
							fail := func(msg string) {
								stats.Violation("TestC06CloseErrors", map[string]interface{}{"case": d, "message": msg})
								t.Fatalf("VIOLATION C06: %s\ncase: %s (repetition %d)", msg, d, rep)
							}
							if !ok {
								fail("RemovePipelineAndNodes of a registered pipeline returned false")
							}
							for k, x := range ns {
								sharedNode := shared == 1 && k == n-2
								c := x.Closes.Load()
								if sharedNode {
									if c != 0 {
										fail(fmt.Sprintf("node %s is still listed by pipeline q but was closed %d time(s)", x.ID, c))
									}
									continue
								}
								if c != 1 {
									fail(fmt.Sprintf("node %s, listed only by the removed pipeline, was closed %d time(s), want exactly once (RemovePipelineAndNodes returned true)", x.ID, c))
								}
							}
							// unregistered: a definition that lists the exclusive sink is refused now
							if err := b.RegisterPipeline(eventlogger.Pipeline{PipelineID: "probe", EventType: "U", NodeIDs: []eventlogger.NodeID{ids[n-2], ids[n-1]}}); err == nil {
								fail(fmt.Sprintf("after the removal a pipeline listing %s could still be registered: the node was not unregistered", ids[n-1]))
							}
						}
						sec.Case(mask != 0 && ctxKind != 0, d, fmt.Sprintf("ctx=%d", ctxKind))
					}
				}
			}
		}
	}
}
