package c06

import (
	"context"
	"fmt"
	"sync/atomic"
	"testing"

	"github.com/hashicorp/eventlogger"
	"pgregory.net/rapid"
	"verif/harness/internal/nodes"
	"verif/harness/internal/stats"
)

const ruleCloseCB = "rapid: a pipeline [f m s] (optionally a second pipeline that shares m) is removed with RemovePipelineAndNodes; the Close of whichever of its nodes the broker closes first calls back into the broker about a SIBLING node that has not been closed yet: RemoveNode(sibling) followed by a probing RegisterPipeline that lists the sibling, or RegisterNode(sibling id, a fresh node); oracle = at that moment the removed pipeline no longer counts: a sibling that no remaining pipeline lists is either gone already or removable - it is never refused while it demonstrably is registered (the probe registration succeeds); a fresh node registered under the sibling's id is not one of the removed pipeline's nodes: it is never closed and stays registered, while the original sibling is closed exactly once; every node is closed at most once; non-trivial = the callback ran; distinct = configuration"

// TestC06CloseCallbacks: in-use accounting "at every point of every history", observed from inside a node's Close.
func TestC06CloseCallbacks(t *testing.T) {
	sec := stats.Sec("close_callbacks", ruleCloseCB)
	rapid.Check(t, func(t *rapid.T) {
		action := rapid.SampledFrom([]string{"remove-sibling", "overwrite-sibling"}).Draw(t, "callback")
		shared := rapid.Bool().Draw(t, "secondPipelineSharesFormatter")
		closeErr := rapid.Bool().Draw(t, "closeFails")
		d := fmt.Sprintf("callback=%s secondPipelineSharesFormatter=%v closeFails=%v", action, shared, closeErr)
		ctx := context.Background()
		b, _ := eventlogger.NewBroker()
		w := &nodes.World{}
		mk := func(id string, nt eventlogger.NodeType) *nodes.N {
			n := &nodes.N{W: w, Name: id, ID: id, T: nt}
			if closeErr {
				n.CloseErr = fmt.Errorf("close of %s failed", id)
			}
			return n
		}
		f, m, s := mk("f", eventlogger.NodeTypeFilter), mk("m", eventlogger.NodeTypeFormatter), mk("s", eventlogger.NodeTypeSink)
		s2 := mk("s2", eventlogger.NodeTypeSink)
		pm := mk("pm", eventlogger.NodeTypeFormatter)
		fresh := mk("fresh", eventlogger.NodeTypeSink)
		for _, n := range []*nodes.N{f, m, s, s2, pm} {
			_ = b.RegisterNode(eventlogger.NodeID(n.ID), n)
		}
		if err := b.RegisterPipeline(eventlogger.Pipeline{PipelineID: "p", EventType: "T", NodeIDs: []eventlogger.NodeID{"f", "m", "s"}}); err != nil {
			t.Fatalf("harness: %v", err)
		}
		if shared {
			if err := b.RegisterPipeline(eventlogger.Pipeline{PipelineID: "q", EventType: "T", NodeIDs: []eventlogger.NodeID{"m", "s2"}}); err != nil {
				t.Fatalf("harness: %v", err)
			}
		}
		own := []*nodes.N{f, s} // the nodes only pipeline p lists
		if !shared {
			own = append(own, m)
		}
		var ran atomic.Bool
		var verdict atomic.Value
		var sibling *nodes.N
		cb := func(self *nodes.N) {
			if !ran.CompareAndSwap(false, true) {
				return
			}
			for _, c := range own {
				if c != self && c.Closes.Load() == 0 {
					sibling = c
					break
				}
			}
			if sibling == nil {
				return
			}
			switch action {
			case "remove-sibling":
				err := b.RemoveNode(ctx, eventlogger.NodeID(sibling.ID))
				if err == nil || sibling.Closes.Load() > 0 {
					return // removed: fine
				}
				// refused: then it must be because the id is not registered any more. Probe by effect: a definition that lists it.
				var perr error
				if sibling.T == eventlogger.NodeTypeSink {
					perr = b.RegisterPipeline(eventlogger.Pipeline{PipelineID: "probe", EventType: "U", NodeIDs: []eventlogger.NodeID{"pm", eventlogger.NodeID(sibling.ID)}})
				} else {
					perr = b.RegisterPipeline(eventlogger.Pipeline{PipelineID: "probe", EventType: "U", NodeIDs: []eventlogger.NodeID{eventlogger.NodeID(sibling.ID), "pm", "s2"}})
				}
				if perr == nil {
					verdict.Store(fmt.Sprintf("inside the Close of %s (pipeline p already removed, no other pipeline lists %s) RemoveNode(%s) was refused (%v) although the node is registered: a pipeline definition listing it was accepted right afterwards", self.ID, sibling.ID, sibling.ID, err))
				}
			case "overwrite-sibling":
				if sibling.T != eventlogger.NodeTypeSink {
					fresh.T = sibling.T
				}
				_ = b.RegisterNode(eventlogger.NodeID(sibling.ID), fresh)
			}
		}
		for _, n := range []*nodes.N{f, m, s} {
			n.OnClose = cb
		}
		ok, _ := b.RemovePipelineAndNodes(ctx, "T", "p")
		if !ok {
			t.Fatalf("VIOLATION C06: RemovePipelineAndNodes of a registered pipeline returned false\ncase: %s", d)
		}
		if v := verdict.Load(); v != nil {
			t.Fatalf("VIOLATION C06: %s\ncase: %s", v, d)
		}
		for _, n := range []*nodes.N{f, m, s, s2, pm, fresh} {
			if c := n.Closes.Load(); c > 1 {
				t.Fatalf("VIOLATION C06: node %s was closed %d times\ncase: %s", n.Name, c, d)
			}
		}
		if action == "overwrite-sibling" && sibling != nil {
			if c := fresh.Closes.Load(); c != 0 {
				t.Fatalf("VIOLATION C06: a node registered under id %q from inside a Close, after pipeline p had been removed and which no pipeline ever listed, was closed by RemovePipelineAndNodes (%d time(s)); the node the pipeline did list was closed %d time(s)\ncase: %s", sibling.ID, c, sibling.Closes.Load(), d)
			}
			if c := sibling.Closes.Load(); c != 1 {
				t.Fatalf("VIOLATION C06: node %s, listed only by the removed pipeline, was closed %d time(s), want 1\ncase: %s", sibling.ID, c, d)
			}
			// the fresh node is still registered: removing it closes it now
			if err := b.RemoveNode(ctx, eventlogger.NodeID(sibling.ID)); err != nil && fresh.Closes.Load() == 0 {
				t.Fatalf("VIOLATION C06: the node registered under id %q after the pipeline was removed is not registered / removable any more: %v\ncase: %s", sibling.ID, err, d)
			}
		}
		for _, n := range own {
			if n != sibling && n.Closes.Load() != 1 {
				t.Fatalf("VIOLATION C06: node %s, listed only by the removed pipeline, was closed %d time(s), want 1\ncase: %s", n.ID, n.Closes.Load(), d)
			}
		}
		if shared && m.Closes.Load() != 0 {
			t.Fatalf("VIOLATION C06: node m is still listed by pipeline q but was closed\ncase: %s", d)
		}
		sec.Case(ran.Load() && sibling != nil, d, "callback="+action)
	})
}
