// C06 — node in-use accounting matches registered pipelines; nodes close exactly once.
package c06

import (
	"encoding/json"
	"fmt"
	"testing"

	"github.com/hashicorp/eventlogger"
	"pgregory.net/rapid"
	"verif/harness/internal/enum"
	"verif/harness/internal/model"
	"verif/harness/internal/stats"
)

func TestMain(m *testing.M) { stats.Main(m, "C06") }

const ruleEnum = "all call sequences of length 1..depth (extensions of a sequence ending in a failed call are pruned: that call was just verified to be a no-op) over a 26-symbol alphabet {RegisterNode f,g (formatters), s (sink); RegisterPipeline 2 ids x 2 types x lists [f s],[g s],[f f s]; RemovePipeline x4; RemovePipelineAndNodes x4; RemoveNode x3} (exhaustive, depth 6-7 on the 12-symbol one-type sub-alphabet); oracle = reference in-use model: every call's result class, Close counts per call, and in the final state the RemoveNode class of every id on a replayed copy plus delivery of a probe Send; non-trivial = the sequence contains a removal after an overwrite, RemovePipeline, shared node or duplicate id"
const ruleRandom = "rapid histories up to 60 calls over 2 types, 3 pipeline ids, 4 node ids (+1 formatter-filter), overwrite, duplicate ids, failing Close; same oracle after every step; distinct = history descriptor"

const (
	fmtT  = int(eventlogger.NodeTypeFormatter)
	sinkT = int(eventlogger.NodeTypeSink)
	filtT = int(eventlogger.NodeTypeFilter)
)

func alphabet(types []string) []model.Op {
	var a []model.Op
	// the three ids also cover the node shapes: f is a Closer+Unwrapper wrapper, g an Unwrapper-only wrapper,
	// s an uncomparable value node
	a = append(a, model.Op{K: "regnode", N: "f", NT: fmtT, Shape: 2}, model.Op{K: "regnode", N: "g", NT: fmtT, Shape: 1}, model.Op{K: "regnode", N: "s", NT: sinkT, Shape: 3})
	for _, et := range types {
		for _, p := range []string{"p", "q"} {
			for _, ids := range [][]string{{"f", "s"}, {"g", "s"}, {"f", "f", "s"}} {
				a = append(a, model.Op{K: "regpipe", ET: et, P: p, IDs: ids})
			}
		}
	}
	for _, et := range types {
		for _, p := range []string{"p", "q"} {
			a = append(a, model.Op{K: "rmpipe", ET: et, P: p})
		}
	}
	for _, et := range types {
		for _, p := range []string{"p", "q"} {
			a = append(a, model.Op{K: "rpan", ET: et, P: p})
		}
	}
	a = append(a, model.Op{K: "rmnode", N: "f"}, model.Op{K: "rmnode", N: "g"}, model.Op{K: "rmnode", N: "s"})
	return a
}

func nontrivial(c *model.Checker) bool {
	return c.Removals > 0 && (c.Overwrites > 0 || c.DupIDs > 0 || shared(c))
}

func shared(c *model.Checker) bool { return c.SharedRemovals > 0 }

func runSeq(ops []model.Op, ets, ids []string, everyStep bool) (string, *model.Checker) {
	c := model.NewChecker()
	sawRmPipe, sawShared := false, false
	for i, op := range ops {
		if op.K == "rmpipe" {
			sawRmPipe = true
		}
		if op.K == "regpipe" {
			// shared node: another registered pipeline already lists one of these ids
			for _, id := range op.IDs {
				if c.S.InUse(id) {
					sawShared = true
				}
			}
		}
		if msg := c.Apply(op); msg != "" {
			return fmt.Sprintf("step %d: %s", i, msg), c
		}
		if (op.K == "rpan" || op.K == "rmnode") && (sawRmPipe || sawShared) {
			c.SharedRemovals++
		}
		if everyStep {
			if msg := c.CheckState(ets, ids, nil); msg != "" {
				return fmt.Sprintf("after step %d: %s", i, msg), c
			}
		}
	}
	if !everyStep {
		if msg := c.CheckState(ets, ids, nil); msg != "" {
			return "final state: " + msg, c
		}
	}
	return "", c
}

func classes(c *model.Checker) []string {
	var cl []string
	if c.Overwrites > 0 {
		cl = append(cl, "overwrite")
	}
	if c.DupIDs > 0 {
		cl = append(cl, "duplicate_id_in_pipeline")
	}
	if c.SharedRemovals > 0 {
		cl = append(cl, "removal_after_share_or_RemovePipeline")
	}
	if c.Removals > 0 {
		cl = append(cl, "removal")
	}
	if c.Failed > 0 {
		cl = append(cl, "failed_call")
	}
	return cl
}

func TestC06Exhaustive(t *testing.T) {
	if rp := stats.ReplayFile("TestC06Exhaustive"); rp != nil {
		replay(t, rp)
		return
	}
	sec := stats.Sec("exhaustive", ruleEnum)
	shard, n := stats.Shard()
	type run struct {
		types []string
		depth int
	}
	runs := []run{{[]string{"A", "B"}, stats.EnvInt("C06_DEPTH2", 3)}, {[]string{"A"}, stats.EnvInt("C06_DEPTH1", 4)}}
	sec.Set("depth_two_types_26_symbols", runs[0].depth)
	sec.Set("depth_one_type_15_symbols", runs[1].depth)
	for _, r := range runs {
		a := alphabet(r.types)
		ok := enum.DFS(a, r.depth, shard, n, func(ops []model.Op) (bool, bool) {
			msg, c := runSeq(ops, r.types, []string{"f", "g", "s"}, false)
			if msg != "" {
				cp := append([]model.Op(nil), ops...)
				b, _ := json.Marshal(cp)
				stats.Violation("TestC06Exhaustive", map[string]interface{}{"ops": json.RawMessage(b), "types": r.types, "history": model.Describe(cp), "message": msg})
				t.Errorf("VIOLATION C06: %s\nhistory: %s", msg, model.Describe(cp))
				return false, false
			}
			sec.CaseEnum(nontrivial(c), func() string { return model.Describe(ops) }, classes(c)...)
			// a sequence whose last call failed is not extended: the call was just verified to be a
			// no-op, so every extension is state-equivalent to a shorter enumerated sequence
			lastFailed := c.LastFailed
			if lastFailed {
				sec.Class("pruned_after_failed_call")
			}
			return !lastFailed, true
		})
		if !ok {
			sec.NotExhaustive()
			return
		}
	}
}

func replay(t *testing.T, rp map[string]interface{}) {
	b, _ := json.Marshal(rp["ops"])
	var ops []model.Op
	if err := json.Unmarshal(b, &ops); err != nil {
		t.Fatalf("bad replay file: %v", err)
	}
	var types []string
	b, _ = json.Marshal(rp["types"])
	_ = json.Unmarshal(b, &types)
	if msg, _ := runSeq(ops, types, []string{"f", "g", "s"}, true); msg != "" {
		t.Fatalf("VIOLATION C06: %s\nhistory: %s", msg, model.Describe(ops))
	}
}

func TestC06Random(t *testing.T) {
	sec := stats.Sec("random", ruleRandom)
	maxOps := stats.EnvInt("C06_MAXOPS", 30)
	// families of names that are distinct strings but collide under careless normalisation
	ets := []string{"A", "B", "\t", "A "}
	pids := []string{"p", "q", "r", " ", "p ", "P"}
	nodeIDs := []string{"f", "g", "h", "s", "u", " ", "s ", "F"}
	typeOf := map[string]int{"f": fmtT, "g": int(eventlogger.NodeTypeFormatterFilter), "h": filtT, "s": sinkT, "u": sinkT, " ": filtT, "s ": sinkT, "F": fmtT}
	opGen := rapid.Custom(func(t *rapid.T) model.Op {
		switch rapid.SampledFrom([]int{0, 0, 1, 1, 1, 1, 2, 3, 3, 4, 4}).Draw(t, "k") {
		case 0:
			id := rapid.SampledFrom(nodeIDs).Draw(t, "n")
			return model.Op{K: "regnode", N: id, NT: typeOf[id], CloseErr: rapid.IntRange(0, 4).Draw(t, "closeErr") == 0, CloseKind: rapid.IntRange(0, 2).Draw(t, "closeKind"),
				Pol: rapid.SampledFrom([]int{0, 0, 0, 1, 2}).Draw(t, "pol"), Shape: rapid.SampledFrom([]int{0, 0, 0, 1, 2, 3, 4, 5}).Draw(t, "shape"),
				Reuse: rapid.IntRange(0, 6).Draw(t, "reuse") == 0}
		case 1:
			inner := rapid.SliceOfN(rapid.SampledFrom([]string{"h", "h", "f", "g", "s", " "}), 0, 2).Draw(t, "inner")
			ids := append(inner, rapid.SampledFrom([]string{"f", "g", "f", "g", "h", "F"}).Draw(t, "fmt"), rapid.SampledFrom([]string{"s", "u", "s "}).Draw(t, "sink"))
			return model.Op{K: "regpipe", ET: rapid.SampledFrom(ets).Draw(t, "et"), P: rapid.SampledFrom(pids).Draw(t, "p"), IDs: ids,
				Pol: rapid.SampledFrom([]int{0, 0, 0, 0, 1, 2}).Draw(t, "ppol"), Dress: rapid.SampledFrom([]int{0, 0, 0, 1, 2, 3}).Draw(t, "pdress")}
		case 2:
			return model.Op{K: "rmpipe", ET: rapid.SampledFrom(ets).Draw(t, "et"), P: rapid.SampledFrom(pids).Draw(t, "p")}
		case 3:
			return model.Op{K: "rpan", ET: rapid.SampledFrom(ets).Draw(t, "et"), P: rapid.SampledFrom(pids).Draw(t, "p"), CtxDone: rapid.IntRange(0, 4).Draw(t, "ctxDone") == 0}
		default:
			return model.Op{K: "rmnode", N: rapid.SampledFrom(nodeIDs).Draw(t, "n"), CtxDone: rapid.IntRange(0, 4).Draw(t, "ctxDone") == 0}
		}
	})
	rapid.Check(t, func(t *rapid.T) {
		var pre []model.Op
		for _, id := range nodeIDs {
			pre = append(pre, model.Op{K: "regnode", N: id, NT: typeOf[id], Shape: rapid.SampledFrom([]int{0, 0, 1, 2, 3, 5}).Draw(t, "preShape-"+id)})
		}
		ops := append(pre, rapid.SliceOfN(opGen, 1, maxOps).Draw(t, "ops")...)
		ops = model.Maintain(t, ops, func(id string) int { return typeOf[id] }, "u")
		msg, c := runSeq(ops, ets, nodeIDs, true)
		if msg != "" {
			t.Fatalf("VIOLATION C06: %s\nhistory: %s", msg, model.Describe(ops))
		}
		sec.Case(nontrivial(c), model.Describe(ops), classes(c)...)
	})
}
