package c06

import (
	"context"
	"fmt"
	"sort"
	"strings"
	"testing"
	"time"

	"github.com/hashicorp/eventlogger"
	"pgregory.net/rapid"
	"verif/harness/internal/simul"
	"verif/harness/internal/stats"
)

const ruleConcRm = "rapid: a registry of 2-4 pipelines over 2 event types drawn from node lists that share nodes, then 2-4 calls (RemovePipelineAndNodes, RemovePipeline, RemoveNode - duplicates likely - and RegisterPipeline of a new pipeline over the same nodes) released at the same instant, 10-40 rounds per case on fresh brokers; oracle = the facts that hold for every sequential order of those calls: the targeted pipelines are gone and the others still deliver, every node listed by a remaining pipeline is still registered and was not closed, no node was closed twice, a closed node is unregistered, and afterwards every registered node that no remaining pipeline lists can be removed (nothing stays pinned); non-trivial = two calls target the same pipeline while another pipeline shares one of its nodes; distinct = configuration"

var pipeTemplates = [][]string{{"f", "m", "s"}, {"m", "s"}, {"f", "m2", "s2"}, {"m2", "s"}, {"f", "m", "s2"}, {"f2", "m2", "s2"}}

func TestC06ConcurrentRemovals(t *testing.T) {
	sec := stats.Sec("concurrent_removals", ruleConcRm)
	nodeIDs := []string{"f", "f2", "m", "m2", "s", "s2"}
	typeOf := func(id string) eventlogger.NodeType {
		switch id[0] {
		case 'f':
			return eventlogger.NodeTypeFilter
		case 'm':
			return eventlogger.NodeTypeFormatter
		}
		return eventlogger.NodeTypeSink
	}
	rapid.Check(t, func(t *rapid.T) {
		np := rapid.IntRange(2, 4).Draw(t, "pipelines")
		type pdef struct {
			id, et string
			nodes  []string
		}
		var defs []pdef
		for i := 0; i < np; i++ {
			defs = append(defs, pdef{fmt.Sprintf("p%d", i), rapid.SampledFrom([]string{"A", "A", "B"}).Draw(t, fmt.Sprintf("et%d", i)),
				rapid.SampledFrom(pipeTemplates).Draw(t, fmt.Sprintf("tpl%d", i))})
		}
		nc := rapid.IntRange(2, 4).Draw(t, "calls")
		type call struct {
			kind, target string
		}
		var calls []call
		for i := 0; i < nc; i++ {
			k := rapid.SampledFrom([]string{"rpan", "rpan", "rpan", "rmpipe", "rmnode", "rmnode", "regpipe"}).Draw(t, fmt.Sprintf("kind%d", i))
			if k == "rmnode" {
				calls = append(calls, call{k, rapid.SampledFrom(nodeIDs).Draw(t, fmt.Sprintf("node%d", i))})
			} else if k == "regpipe" {
				// a NEW pipeline (its own id) over a drawn node list: it may fail when a node it lists was removed first
				calls = append(calls, call{k, fmt.Sprint(rapid.IntRange(0, len(pipeTemplates)-1).Draw(t, fmt.Sprintf("newTpl%d", i)))})
			} else {
				// low-numbered pipelines are favoured so that duplicates are common
				calls = append(calls, call{k, defs[rapid.SampledFrom([]int{0, 0, 0, 1, np - 1}).Draw(t, fmt.Sprintf("pipe%d", i))].id})
			}
		}
		rounds := rapid.SampledFrom([]int{10, 40}).Draw(t, "rounds")
		var ds []string
		for _, p := range defs {
			ds = append(ds, fmt.Sprintf("%s/%s%v", p.et, p.id, p.nodes))
		}
		var cs []string
		for _, c := range calls {
			if c.kind == "regpipe" {
				cs = append(cs, fmt.Sprintf("regpipe(new%d,%v)", len(cs), pipeTemplates[atoi(c.target)]))
				continue
			}
			cs = append(cs, c.kind+"("+c.target+")")
		}
		d := fmt.Sprintf("pipelines=%s calls=[%s] rounds=%d", strings.Join(ds, " "), strings.Join(cs, " "), rounds)
		ctx := context.Background()
		// order-independent expectations
		targeted := map[string]bool{}
		dupTarget := map[string]int{}
		for _, c := range calls {
			if c.kind != "rmnode" && c.kind != "regpipe" {
				targeted[c.target] = true
				if c.kind == "rpan" {
					dupTarget[c.target]++
				}
			}
		}
		inUseBase := map[string]bool{}
		for _, p := range defs {
			if !targeted[p.id] {
				for _, n := range p.nodes {
					inUseBase[n] = true
				}
			}
		}
		inUseAfter := inUseBase
		interesting := false
		for _, p := range defs {
			if dupTarget[p.id] >= 2 {
				for _, n := range p.nodes {
					if inUseAfter[n] {
						interesting = true
					}
				}
			}
		}
		for r := 0; r < rounds; r++ {
			b, _ := eventlogger.NewBroker()
			ns := map[string]*simul.Node{}
			for _, id := range nodeIDs {
				ns[id] = simul.New(id, typeOf(id))
				_ = b.RegisterNode(eventlogger.NodeID(id), ns[id])
			}
			for _, p := range defs {
				var ids []eventlogger.NodeID
				for _, n := range p.nodes {
					ids = append(ids, eventlogger.NodeID(n))
				}
				if err := b.RegisterPipeline(eventlogger.Pipeline{PipelineID: eventlogger.PipelineID(p.id), EventType: eventlogger.EventType(p.et), NodeIDs: ids}); err != nil {
					t.Fatalf("harness: %v", err)
				}
			}
			etOf := map[string]string{}
			for _, p := range defs {
				etOf[p.id] = p.et
			}
			fs := make([]func(), len(calls))
			regOK := make([]bool, len(calls))
			for i, c := range calls {
				c := c
				switch c.kind {
				case "rpan":
					fs[i] = func() {
						_, _ = b.RemovePipelineAndNodes(ctx, eventlogger.EventType(etOf[c.target]), eventlogger.PipelineID(c.target))
					}
				case "rmpipe":
					fs[i] = func() { _ = b.RemovePipeline(eventlogger.EventType(etOf[c.target]), eventlogger.PipelineID(c.target)) }
				case "rmnode":
					fs[i] = func() { _ = b.RemoveNode(ctx, eventlogger.NodeID(c.target)) }
				case "regpipe":
					i := i
					var ids []eventlogger.NodeID
					for _, n := range pipeTemplates[atoi(c.target)] {
						ids = append(ids, eventlogger.NodeID(n))
					}
					fs[i] = func() {
						regOK[i] = b.RegisterPipeline(eventlogger.Pipeline{PipelineID: eventlogger.PipelineID(fmt.Sprintf("new%d", i)), EventType: "A", NodeIDs: ids}) == nil
					}
				}
			}
			if !simul.Burst(20*time.Second, fs...) {
				fmt.Printf("\nINCONCLUSIVE-MARK watchdog: simultaneous removals did not return\n")
				t.Skip("inconclusive")
			}
			// pipelines registered during the burst count as remaining pipelines
			inUseAfter = map[string]bool{}
			for n := range inUseBase {
				inUseAfter[n] = true
			}
			var newPipes [][]string
			for i, c := range calls {
				if c.kind == "regpipe" && regOK[i] {
					newPipes = append(newPipes, pipeTemplates[atoi(c.target)])
					for _, n := range pipeTemplates[atoi(c.target)] {
						inUseAfter[n] = true
					}
				}
			}
			ids := append([]string(nil), nodeIDs...)
			sort.Strings(ids)
			for _, id := range ids {
				n := ns[id]
				if n.Closed.Load() > 1 {
					t.Fatalf("VIOLATION C06: node %s was closed %d times (round %d)\ncase: %s", id, n.Closed.Load(), r, d)
				}
				if inUseAfter[id] && n.Closed.Load() > 0 {
					t.Fatalf("VIOLATION C06: node %s was closed although a remaining pipeline lists it (round %d)\ncase: %s", id, r, d)
				}
			}
			// remaining pipelines still deliver, exactly once per pipeline
			for _, id := range ids {
				ns[id].Processed.Store(0)
			}
			wantSink := map[string]int64{}
			for _, et := range []string{"A", "B"} {
				any := false
				for _, p := range defs {
					if p.et == et && !targeted[p.id] {
						any = true
						wantSink[p.nodes[len(p.nodes)-1]]++
					}
				}
				if et == "A" {
					for _, np := range newPipes {
						any = true
						wantSink[np[len(np)-1]]++
					}
				}
				_, err := b.Send(ctx, eventlogger.EventType(et), "x")
				if any && err != nil {
					t.Fatalf("VIOLATION C06: Send to the remaining pipelines of type %s failed after the removals: %v (round %d)\ncase: %s", et, err, r, d)
				}
			}
			for _, id := range []string{"s", "s2"} {
				if got := ns[id].Processed.Load(); got != wantSink[id] {
					t.Fatalf("VIOLATION C06: after the removals sink %s received %d events, the remaining pipelines listing it are %d (round %d)\ncase: %s", id, got, wantSink[id], r, d)
				}
			}
			// registration status: a probe pipeline can only be registered over registered nodes
			for _, id := range ids {
				var probe []eventlogger.NodeID
				switch typeOf(id) {
				case eventlogger.NodeTypeSink:
					_ = b.RegisterNode("probe.m", simul.New("probe.m", eventlogger.NodeTypeFormatter))
					probe = []eventlogger.NodeID{"probe.m", eventlogger.NodeID(id)}
				case eventlogger.NodeTypeFormatter:
					_ = b.RegisterNode("probe.s", simul.New("probe.s", eventlogger.NodeTypeSink))
					probe = []eventlogger.NodeID{eventlogger.NodeID(id), "probe.s"}
				default:
					_ = b.RegisterNode("probe.m", simul.New("probe.m", eventlogger.NodeTypeFormatter))
					_ = b.RegisterNode("probe.s", simul.New("probe.s", eventlogger.NodeTypeSink))
					probe = []eventlogger.NodeID{eventlogger.NodeID(id), "probe.m", "probe.s"}
				}
				err := b.RegisterPipeline(eventlogger.Pipeline{PipelineID: "probe", EventType: "PROBE", NodeIDs: probe})
				registered := err == nil
				if registered {
					_ = b.RemovePipeline("PROBE", "probe")
				}
				n := ns[id]
				switch {
				case inUseAfter[id] && !registered:
					t.Fatalf("VIOLATION C06: node %s is listed by a remaining pipeline but is no longer registered (round %d)\ncase: %s", id, r, d)
				case n.Closed.Load() > 0 && registered:
					t.Fatalf("VIOLATION C06: node %s was closed but is still registered (round %d)\ncase: %s", id, r, d)
				case !inUseAfter[id] && registered:
					if err := b.RemoveNode(ctx, eventlogger.NodeID(id)); err != nil {
						t.Fatalf("VIOLATION C06: node %s is listed by no remaining pipeline but RemoveNode refuses it: %v (round %d)\ncase: %s", id, err, r, d)
					}
					if n.Closed.Load() != 1 {
						t.Fatalf("VIOLATION C06: RemoveNode(%s) succeeded and the node's Close count is %d (round %d)\ncase: %s", id, n.Closed.Load(), r, d)
					}
				}
			}
		}
		var cl []string
		if interesting {
			cl = append(cl, "duplicate_removal_of_pipeline_sharing_nodes")
		}
		sec.Case(interesting, d, cl...)
	})
}

func atoi(s string) int {
	n := 0
	for _, ch := range s {
		n = n*10 + int(ch-'0')
	}
	return n
}
