// C08 — FileSink never loses, duplicates, reorders or tears an acknowledged event.
package c08

import (
	"bufio"
	"context"
	"encoding/binary"
	"encoding/json"
	"fmt"
	"hash/crc32"
	"math"
	"os"
	"os/exec"
	"path/filepath"
	"sort"
	"strconv"
	"strings"
	"sync"
	"sync/atomic"
	"syscall"
	"testing"
	"time"

	"github.com/hashicorp/eventlogger"
	"pgregory.net/rapid"
	"verif/harness/internal/fsx"
	"verif/harness/internal/stats"
)

func TestMain(m *testing.M) {
	syscall.Umask(0o022)
	if os.Getenv("C08_CHILD") != "" {
		childMain()
		return
	}
	stats.Main(m, "C08")
}

const ruleSeq = "rapid: FileSink configurations x sequences of write(1..200 arbitrary bytes)/Reopen/external rename of the active file/pause/foreign file; after every step the concatenation of all files ever seen (oldest to newest, removed ones with their last content) must equal the acknowledged byte stream exactly, and files may only disappear through retention; non-trivial = >=1 rotation and (Reopen or rename); distinct = case descriptor"
const ruleConc = "rapid: 2-8 writer goroutines x per-writer sequences of framed events on one FileSink (size rotation on); oracle = files parse into whole frames, every acknowledged id exactly once (suffix under retention), per-writer order preserved, a frame acknowledged before another writer's call began precedes it; non-trivial = >=1 rotation and >=2 writers"
const ruleCrash = "rapid: a child process runs 1-4 writers on a drawn configuration and reports each acknowledgement through a pipe; the parent SIGKILLs it after a drawn 0-80ms; oracle = files parse into whole frames (no torn frame), every acknowledged id present exactly once (suffix under retention), unacknowledged frames <= number of writers; non-trivial = the kill landed after >=1 ack and before the child finished"

func TestC08Sequential(t *testing.T) {
	sec := stats.Sec("sequential", ruleSeq)
	maxOps := stats.EnvInt("C08_MAXOPS", 25)
	rapid.Check(t, func(t *rapid.T) {
		c := fsx.GenCfg(t)
		ops := fsx.GenOps(t, maxOps, c.MaxDurMs > 0)
		v, r, _ := fsx.RunSeq(c, ops)
		if v != nil && v.Prop == "infra" {
			t.Skip(v.Msg)
		}
		if v != nil && v.Prop == "C08" {
			t.Fatalf("VIOLATION C08: %s\ncase: %s", v.Msg, fsx.Describe(c, ops))
		}
		if r == nil {
			return
		}
		s := r.Sum
		var cl []string
		for name, n := range map[string]int{"rotation": s.Rotations, "reopen": s.Reopens, "external_rename": s.Renames, "pruned": s.Pruned, "write_error": s.WriteErrors, "restart_new_sink_value": s.Restarts, "idle_after_reopen": s.IdleAfterReopen} {
			if n > 0 {
				cl = append(cl, name)
			}
		}
		if v != nil {
			cl = append(cl, "other_property_violation_"+v.Prop)
		}
		sec.Case(s.Rotations > 0 && (s.Reopens > 0 || s.Renames > 0), fsx.Describe(c, ops), cl...)
	})
}

// ---------------------------------------------------------------------------
// frames: magic(2) id(4) len(1) payload crc(4)  -> 11..200 bytes

const magic0, magic1 = 0xFE, 0xE7

func frame(id uint32, payload []byte) []byte {
	b := make([]byte, 0, 11+len(payload))
	b = append(b, magic0, magic1)
	b = binary.BigEndian.AppendUint32(b, id)
	b = append(b, byte(len(payload)))
	b = append(b, payload...)
	b = binary.BigEndian.AppendUint32(b, crc32.ChecksumIEEE(b))
	return b
}

// parseFrames returns the ids in order, or an error describing the tear.
func parseFrames(b []byte) ([]uint32, error) {
	var ids []uint32
	for off := 0; off < len(b); {
		if len(b)-off < 11 {
			return ids, fmt.Errorf("partial frame header at offset %d (%d trailing bytes)", off, len(b)-off)
		}
		if b[off] != magic0 || b[off+1] != magic1 {
			return ids, fmt.Errorf("bad magic at offset %d", off)
		}
		n := int(b[off+6])
		end := off + 7 + n + 4
		if end > len(b) {
			return ids, fmt.Errorf("frame at offset %d is cut short (%d of %d bytes)", off, len(b)-off, end-off)
		}
		if crc32.ChecksumIEEE(b[off:end-4]) != binary.BigEndian.Uint32(b[end-4:end]) {
			return ids, fmt.Errorf("frame at offset %d is corrupted (crc)", off)
		}
		ids = append(ids, binary.BigEndian.Uint32(b[off+2:off+6]))
		off = end
	}
	return ids, nil
}

// readDirOrdered reads the sink's files oldest to newest.
func readDirOrdered(dir, fileName string) ([][]byte, []string, error) {
	ents, err := os.ReadDir(dir)
	if err != nil {
		return nil, nil, err
	}
	ext := filepath.Ext(fileName)
	if ext == "" {
		ext = ".log"
	}
	base := strings.TrimSuffix(fileName, ext)
	type f struct {
		name string
		key  int64
	}
	var fs []f
	for _, e := range ents {
		n := e.Name()
		key := int64(-1)
		if n == fileName {
			key = math.MaxInt64
		} else if strings.HasPrefix(n, base+"-") && strings.HasSuffix(n, ext) {
			if v, err := strconv.ParseInt(n[len(base)+1:len(n)-len(ext)], 10, 64); err == nil {
				key = v
			}
		}
		if key >= 0 {
			fs = append(fs, f{n, key})
		}
	}
	sort.Slice(fs, func(i, j int) bool { return fs[i].key < fs[j].key })
	var out [][]byte
	var names []string
	for _, x := range fs {
		b, err := os.ReadFile(filepath.Join(dir, x.name))
		if err != nil {
			return nil, nil, err
		}
		out = append(out, b)
		names = append(names, x.name)
	}
	return out, names, nil
}

type ccfg struct {
	MaxBytes int
	MaxFiles int
	TSOnly   bool
	Writers  int
	PerW     int
	Sizes    []int
	Reopener bool
}

func (c ccfg) String() string {
	return fmt.Sprintf("MaxBytes=%d MaxFiles=%d TSOnly=%v writers=%d eventsPerWriter=%d reopener=%v sizes=%v", c.MaxBytes, c.MaxFiles, c.TSOnly, c.Writers, c.PerW, c.Reopener, c.Sizes)
}

func genCC(t *rapid.T, maxWriters int) ccfg {
	return ccfg{
		MaxBytes: rapid.SampledFrom([]int{0, 64, 150, 300, 300}).Draw(t, "maxBytes"),
		MaxFiles: rapid.SampledFrom([]int{0, 0, 2, 3}).Draw(t, "maxFiles"),
		TSOnly:   rapid.Bool().Draw(t, "tsOnly"),
		Writers:  rapid.IntRange(1, maxWriters).Draw(t, "writers"),
		PerW:     rapid.IntRange(1, 25).Draw(t, "perWriter"),
		Sizes:    rapid.SliceOfN(rapid.IntRange(0, 189), 1, 8).Draw(t, "sizes"),
		Reopener: rapid.IntRange(0, 2).Draw(t, "reopener") == 0,
	}
}

type ack struct {
	id         uint32
	start, end int64
}

func TestC08Concurrent(t *testing.T) {
	sec := stats.Sec("concurrent", ruleConc)
	rapid.Check(t, func(t *rapid.T) {
		c := genCC(t, 8)
		root, err := os.MkdirTemp("", "verif-c08c-")
		if err != nil {
			t.Skip(err.Error())
		}
		defer os.RemoveAll(root)
		sink := &eventlogger.FileSink{Path: root, FileName: "ev.log", MaxBytes: c.MaxBytes, MaxFiles: c.MaxFiles, TimestampOnlyOnRotate: c.TSOnly}
		var seq atomic.Int64
		var mu sync.Mutex
		var acks []ack
		var wg sync.WaitGroup
		var stop atomic.Bool
		for w := 0; w < c.Writers; w++ {
			wg.Add(1)
			go func(w int) {
				defer wg.Done()
				for k := 0; k < c.PerW; k++ {
					id := uint32(w)<<16 | uint32(k)
					payload := make([]byte, c.Sizes[(w+k)%len(c.Sizes)])
					for i := range payload {
						payload[i] = byte(w*31 + k + i)
					}
					ev := &eventlogger.Event{Formatted: map[string][]byte{eventlogger.JSONFormat: frame(id, payload)}}
					st := seq.Add(1)
					_, err := sink.Process(context.Background(), ev)
					en := seq.Add(1)
					if err == nil {
						mu.Lock()
						acks = append(acks, ack{id, st, en})
						mu.Unlock()
					}
				}
			}(w)
		}
		reopenerDone := make(chan struct{})
		if !c.Reopener {
			close(reopenerDone)
		} else {
			go func() {
				defer close(reopenerDone)
				for !stop.Load() {
					_ = sink.Reopen()
					time.Sleep(100 * time.Microsecond)
				}
			}()
		}
		wg.Wait()
		stop.Store(true)
		<-reopenerDone // a Reopen after the directory is removed would re-create it (open() does MkdirAll)
		files, names, err := readDirOrdered(root, "ev.log")
		if err != nil {
			t.Skip(err.Error())
		}
		pos := map[uint32]int{}
		n := 0
		for i, b := range files {
			ids, perr := parseFrames(b)
			if perr != nil {
				t.Fatalf("VIOLATION C08: file %s does not consist of whole events: %v\ncase: %s", names[i], perr, c)
			}
			for _, id := range ids {
				if _, dup := pos[id]; dup {
					t.Fatalf("VIOLATION C08: event %#x is present twice\ncase: %s", id, c)
				}
				pos[id] = n
				n++
			}
		}
		missing := 0
		for _, a := range acks {
			if _, ok := pos[a.id]; !ok {
				missing++
			}
		}
		if missing > 0 && c.MaxFiles == 0 {
			t.Fatalf("VIOLATION C08: %d acknowledged event(s) are missing from the files although no retention limit is set\ncase: %s", missing, c)
		}
		// order: per writer, and real-time between writers; missing ones must be older than every present one
		sort.Slice(acks, func(i, j int) bool { return acks[i].end < acks[j].end })
		for i := range acks {
			pi, oki := pos[acks[i].id]
			for j := range acks {
				if acks[i].end >= acks[j].start {
					continue
				}
				// i was acknowledged before j's call began
				pj, okj := pos[acks[j].id]
				if oki && okj && pi > pj {
					t.Fatalf("VIOLATION C08: event %#x was acknowledged before the write of %#x began but follows it in the files\ncase: %s", acks[i].id, acks[j].id, c)
				}
				if oki && !okj {
					t.Fatalf("VIOLATION C08: acknowledged event %#x is missing while the older %#x is still present (not a suffix)\ncase: %s", acks[j].id, acks[i].id, c)
				}
			}
		}
		rot := len(files) > 1
		var cl []string
		if rot {
			cl = append(cl, "rotation")
		}
		if c.Writers >= 2 {
			cl = append(cl, "multi_writer")
		}
		if missing > 0 {
			cl = append(cl, "retention_removed_events")
		}
		if c.Reopener {
			cl = append(cl, "concurrent_reopen")
		}
		sec.Case(rot && c.Writers >= 2, c.String(), cl...)
	})
}

// ---------------------------------------------------------------------------
// crash mode

func childMain() {
	var c ccfg
	if err := json.Unmarshal([]byte(os.Getenv("C08_CHILD")), &c); err != nil {
		os.Exit(3)
	}
	dir := os.Getenv("C08_DIR")
	pipe := os.NewFile(3, "acks")
	sink := &eventlogger.FileSink{Path: dir, FileName: "ev.log", MaxBytes: c.MaxBytes, MaxFiles: c.MaxFiles, TimestampOnlyOnRotate: c.TSOnly}
	var wg sync.WaitGroup
	_, _ = pipe.Write([]byte("S 0\n"))
	for w := 0; w < c.Writers; w++ {
		wg.Add(1)
		go func(w int) {
			defer wg.Done()
			for k := 0; k < c.PerW*40; k++ {
				id := uint32(w)<<16 | uint32(k)
				payload := make([]byte, c.Sizes[(w+k)%len(c.Sizes)])
				for i := range payload {
					payload[i] = byte(w*31 + k + i)
				}
				ev := &eventlogger.Event{Formatted: map[string][]byte{eventlogger.JSONFormat: frame(id, payload)}}
				if _, err := sink.Process(context.Background(), ev); err == nil {
					_, _ = pipe.Write([]byte(fmt.Sprintf("A %d\n", id)))
				}
			}
		}(w)
	}
	wg.Wait()
	_, _ = pipe.Write([]byte("F 0\n"))
	os.Exit(0)
}

const sigTornTail = "tear:sigkill-during-page-straddling-write/tail-of-newest-file-cut-at-4096-boundary"

func TestC08Crash(t *testing.T) {
	sec := stats.Sec("crash", ruleCrash)
	self, err := os.Executable()
	if err != nil {
		t.Skip(err.Error())
	}
	rapid.Check(t, func(t *rapid.T) {
		c := genCC(t, 4)
		c.Reopener = false
		killUs := rapid.IntRange(0, 80000).Draw(t, "killAfterUs")
		root, err := os.MkdirTemp("", "verif-c08k-")
		if err != nil {
			t.Skip(err.Error())
		}
		defer os.RemoveAll(root)
		pr, pw, err := os.Pipe()
		if err != nil {
			t.Skip(err.Error())
		}
		cj, _ := json.Marshal(c)
		cmd := exec.Command(self, "-test.run", "^$")
		cmd.Env = append(os.Environ(), "C08_CHILD="+string(cj), "C08_DIR="+root, "VERIF_STATS=")
		cmd.ExtraFiles = []*os.File{pw}
		if err := cmd.Start(); err != nil {
			pr.Close()
			pw.Close()
			t.Skip(err.Error())
		}
		pw.Close()
		var acked []uint32
		started, finished := false, false
		readDone := make(chan struct{})
		firstLine := make(chan struct{})
		go func() {
			defer close(readDone)
			sc := bufio.NewReader(pr)
			first := true
			for {
				line, err := sc.ReadString('\n')
				if err != nil {
					return // EOF (a partial last line is not an acknowledgement)
				}
				if first {
					first = false
					close(firstLine)
				}
				switch {
				case strings.HasPrefix(line, "S "):
					started = true
				case strings.HasPrefix(line, "F "):
					finished = true
				case strings.HasPrefix(line, "A "):
					v, _ := strconv.ParseUint(strings.TrimSpace(line[2:]), 10, 32)
					acked = append(acked, uint32(v))
				}
			}
		}()
		select {
		case <-firstLine:
		case <-time.After(20 * time.Second):
		}
		time.Sleep(time.Duration(killUs) * time.Microsecond)
		_ = cmd.Process.Kill()
		_ = cmd.Wait()
		<-readDone
		pr.Close()
		if !started {
			t.Skip("child did not start")
		}
		files, names, err := readDirOrdered(root, "ev.log")
		if err != nil {
			files = nil
		}
		present := map[uint32]int{}
		total := 0
		tornKnown := false
		for i, b := range files {
			ids, perr := parseFrames(b)
			if perr != nil {
				// Known finding (open): a SIGKILL that arrives while write(2) is copying an event that
				// straddles a page-cache page boundary leaves the first part of that (unacknowledged)
				// event at the very end of the newest file, cut exactly at the 4096-byte boundary.
				// The cut may fall inside the frame's 11-byte header ("partial frame header") or behind it ("cut short").
				// Anything else (a tear elsewhere, not page aligned, corrupted bytes) is a violation.
				if i == len(files)-1 && (strings.Contains(perr.Error(), "cut short") || strings.Contains(perr.Error(), "partial frame header")) && len(b)%4096 == 0 && stats.Known(sigTornTail) {
					tornKnown = true
				} else {
					t.Fatalf("VIOLATION C08: after SIGKILL file %s holds a torn event: %v\ncase: %s kill=%dus size=%d", names[i], perr, c, killUs, len(b))
				}
			}
			for _, id := range ids {
				present[id]++
				total++
				if present[id] > 1 {
					t.Fatalf("VIOLATION C08: after SIGKILL event %#x is present twice\ncase: %s", id, c)
				}
			}
		}
		ackSet := map[uint32]bool{}
		missing := 0
		for _, id := range acked {
			ackSet[id] = true
			if present[id] == 0 {
				missing++
			}
		}
		if missing > 0 && c.MaxFiles == 0 {
			t.Fatalf("VIOLATION C08: after SIGKILL %d acknowledged event(s) are missing (no retention limit)\ncase: %s kill=%dus acked=%d", missing, c, killUs, len(acked))
		}
		unacked := 0
		for id := range present {
			if !ackSet[id] {
				unacked++
			}
		}
		// an acknowledgement is reported after Process returned, so each writer can have one
		// event written-and-not-yet-reported plus one in flight
		if unacked > 2*c.Writers {
			t.Fatalf("VIOLATION C08: %d unacknowledged events in the files for %d writers\ncase: %s", unacked, c.Writers, c)
		}
		var cl []string
		if tornKnown {
			sec.Excluded()
			cl = append(cl, "known_finding_torn_tail_at_page_boundary")
		}
		if len(acked) > 0 && !finished {
			cl = append(cl, "killed_mid_run")
		}
		if finished {
			cl = append(cl, "child_finished_before_kill")
		}
		if len(acked) == 0 {
			cl = append(cl, "killed_before_first_ack")
		}
		if len(files) > 1 {
			cl = append(cl, "rotation")
		}
		sec.Case(len(acked) > 0 && !finished, fmt.Sprintf("%s kill=%dus acked=%d", c, killUs, len(acked)), cl...)
	})
}
