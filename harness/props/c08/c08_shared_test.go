package c08

import (
	"bytes"
	"context"
	"fmt"
	"os"
	"path/filepath"
	"sort"
	"strings"
	"testing"

	"github.com/hashicorp/eventlogger"
	"pgregory.net/rapid"
	"verif/harness/internal/stats"
)

const ruleShared = "rapid: 2-3 FileSinks write into ONE directory under file names that are related as strings (the stem of one a proper prefix of another's: audit.log / audit2.log / auditor.log, a.log / ab.log / abc.log, ev / evx), each with its own MaxBytes (rotating often) and MaxFiles (0 = keep everything, or 1-2), writes interleaved in a drawn order; oracle = per sink, reading its own files oldest to newest gives exactly its acknowledged events in order - all of them when MaxFiles is 0, a suffix otherwise - and no file of one sink holds an event of another; non-trivial = one sink has a retention limit and a longer-named neighbour has none; distinct = configuration"

// TestC08SharedDirectory: a sink's retention limit concerns "the sink's own name space" only.
func TestC08SharedDirectory(t *testing.T) {
	sec := stats.Sec("shared_directory", ruleShared)
	root, err := os.MkdirTemp("", "verif-c08s-")
	if err != nil {
		t.Skip(err.Error())
	}
	defer os.RemoveAll(root)
	families := [][]string{{"audit.log", "audit2.log", "auditor.log"}, {"a.log", "ab.log", "abc.log"}, {"ev", "evx", "ev2"}, {"x.json", "xy.json"}}
	caseNo := 0
	rapid.Check(t, func(t *rapid.T) {
		caseNo++
		fam := rapid.SampledFrom(families).Draw(t, "names")
		n := rapid.IntRange(2, len(fam)).Draw(t, "sinks")
		tsOnly := rapid.Bool().Draw(t, "timestampOnlyOnRotate")
		dir := filepath.Join(root, fmt.Sprintf("c%d", caseNo))
		defer os.RemoveAll(dir)
		type sk struct {
			fs    *eventlogger.FileSink
			name  string
			acked []string
		}
		var sinks []*sk
		var ds []string
		limited, unlimitedLonger := false, false
		for i := 0; i < n; i++ {
			mf := rapid.SampledFrom([]int{0, 0, 1, 2}).Draw(t, fmt.Sprintf("maxFiles%d", i))
			mb := rapid.SampledFrom([]int{1, 20, 60}).Draw(t, fmt.Sprintf("maxBytes%d", i))
			sinks = append(sinks, &sk{name: fam[i], fs: &eventlogger.FileSink{Path: dir, FileName: fam[i], Format: "f", MaxBytes: mb, MaxFiles: mf, TimestampOnlyOnRotate: tsOnly}})
			ds = append(ds, fmt.Sprintf("%s{MaxBytes=%d MaxFiles=%d}", fam[i], mb, mf))
			if mf > 0 && i < n-1 {
				limited = true
			}
			if mf == 0 && i > 0 && limited {
				unlimitedLonger = true
			}
		}
		d := fmt.Sprintf("tsOnly=%v %s", tsOnly, strings.Join(ds, " "))
		order := rapid.SliceOfN(rapid.IntRange(0, n-1), 10, 60).Draw(t, "writeOrder")
		for k, si := range order {
			s := sinks[si]
			line := fmt.Sprintf("sink%d-event%03d\n", si, k)
			if _, err := s.fs.Process(context.Background(), &eventlogger.Event{Type: "t", Formatted: map[string][]byte{"f": []byte(line)}}); err != nil {
				t.Fatalf("VIOLATION C08: write to %s failed: %v\ncase: %s", s.name, err, d)
			}
			s.acked = append(s.acked, line)
		}
		ents, _ := os.ReadDir(dir)
		// attribute every file to the sink whose event tokens it holds (the content decides, not the name)
		perSink := make([][]string, n)
		var names []string
		for _, e := range ents {
			names = append(names, e.Name())
		}
		sort.Strings(names)
		for _, name := range names {
			b, _ := os.ReadFile(filepath.Join(dir, name))
			owner := -1
			for _, line := range bytes.SplitAfter(b, []byte("\n")) {
				if len(line) == 0 {
					continue
				}
				var si, k int
				if _, err := fmt.Sscanf(string(line), "sink%d-event%03d\n", &si, &k); err != nil {
					t.Fatalf("VIOLATION C08: file %s holds bytes that are no acknowledged event: %q\ncase: %s", name, line, d)
				}
				if owner >= 0 && owner != si {
					t.Fatalf("VIOLATION C08: file %s holds events of two sinks\ncase: %s", name, d)
				}
				owner = si
				perSink[si] = append(perSink[si], string(line))
			}
		}
		for si, s := range sinks {
			// the active file sorts last only in timestamped mode; compare as multisets in order of token instead
			got := append([]string(nil), perSink[si]...)
			sort.Strings(got)
			want := s.acked
			if s.fs.MaxFiles == 0 {
				if strings.Join(got, "") != strings.Join(want, "") {
					t.Fatalf("VIOLATION C08: sink %s keeps every file (MaxFiles=0) and acknowledged %d events, its files hold %d: acknowledged events are missing (another sink of the directory has a retention limit)\nmissing from: %v\ncase: %s", s.name, len(want), len(got), firstMissing(want, got), d)
				}
				continue
			}
			if len(got) > len(want) || strings.Join(got, "") != strings.Join(want[len(want)-len(got):], "") {
				t.Fatalf("VIOLATION C08: the files of sink %s do not hold a suffix of its acknowledged events: %d of %d, first difference %v\ncase: %s", s.name, len(got), len(want), firstMissing(want, got), d)
			}
		}
		sec.Case(unlimitedLonger, d, fmt.Sprintf("sinks=%d", n))
	})
}

func firstMissing(want, got []string) string {
	have := map[string]bool{}
	for _, g := range got {
		have[g] = true
	}
	for _, w := range want {
		if !have[w] {
			return strings.TrimSpace(w)
		}
	}
	return "-"
}
