package c20

import (
	"context"
	"errors"
	"fmt"
	"strings"
	"sync"
	"sync/atomic"
	"testing"

	"github.com/hashicorp/eventlogger"
	"pgregory.net/rapid"
	"verif/harness/internal/stats"
)

const ruleShapes = "rapid: 1-4 pipelines over 1-2 event types whose nodes are drawn from unusual Go shapes: ordinary pointer nodes, zero-size struct nodes registered by pointer (several types, all at the same address), a sink that owns its formatter as first field (two nodes, one address), value-type nodes, uncomparable (slice-carrying) value nodes; Broker.Reopen first with no failing node, then with every node in turn failing with a unique error; oracle = every node's Reopen counter >= 1 and nil / non-nil result carrying the failure; non-trivial = >=2 nodes of one event type share an address; distinct = shape descriptor"
const ruleOver = "rapid: 1-3 event types with 1-3 pipelines each; one goroutine keeps re-registering one pipeline (identical definition or alternating between two formatters, the sink always the same) while the test calls Broker.Reopen 300-3000 times; oracle = after every Reopen the sink that is held by a registered pipeline throughout has been reopened since the call started, and the result is nil; non-trivial = >=2 event types (the overwritten pipeline's graph is not the first thing Reopen visits); distinct = configuration"

type cnt struct {
	name    string
	reopens atomic.Int64
	err     error
}

func (c *cnt) reopen() error {
	c.reopens.Add(1)
	return c.err
}

// ordinary pointer node
type pnode struct {
	c *cnt
	t eventlogger.NodeType
}

func (n *pnode) Process(_ context.Context, e *eventlogger.Event) (*eventlogger.Event, error) {
	return e, nil
}
func (n *pnode) Reopen() error              { return n.c.reopen() }
func (n *pnode) Type() eventlogger.NodeType { return n.t }

// value-type node
type vnode struct {
	c *cnt
	t eventlogger.NodeType
}

func (n vnode) Process(_ context.Context, e *eventlogger.Event) (*eventlogger.Event, error) {
	return e, nil
}
func (n vnode) Reopen() error              { return n.c.reopen() }
func (n vnode) Type() eventlogger.NodeType { return n.t }

// uncomparable value node
type unode struct {
	c   *cnt
	t   eventlogger.NodeType
	pad []int
}

func (n unode) Process(_ context.Context, e *eventlogger.Event) (*eventlogger.Event, error) {
	return e, nil
}
func (n unode) Reopen() error              { return n.c.reopen() }
func (n unode) Type() eventlogger.NodeType { return n.t }

// zero-size nodes: their state lives in package variables
var zc = map[string]*cnt{"zfilter": {name: "zfilter"}, "zfmt": {name: "zfmt"}, "zfmt2": {name: "zfmt2"}, "zsink": {name: "zsink"}}

type zFilter struct{}
type zFmt struct{}
type zFmt2 struct{}
type zSink struct{}

func (*zFilter) Process(_ context.Context, e *eventlogger.Event) (*eventlogger.Event, error) {
	return e, nil
}
func (*zFilter) Reopen() error              { return zc["zfilter"].reopen() }
func (*zFilter) Type() eventlogger.NodeType { return eventlogger.NodeTypeFilter }
func (*zFmt) Process(_ context.Context, e *eventlogger.Event) (*eventlogger.Event, error) {
	return e, nil
}
func (*zFmt) Reopen() error              { return zc["zfmt"].reopen() }
func (*zFmt) Type() eventlogger.NodeType { return eventlogger.NodeTypeFormatter }
func (*zFmt2) Process(_ context.Context, e *eventlogger.Event) (*eventlogger.Event, error) {
	return e, nil
}
func (*zFmt2) Reopen() error              { return zc["zfmt2"].reopen() }
func (*zFmt2) Type() eventlogger.NodeType { return eventlogger.NodeTypeFormatter }
func (*zSink) Process(_ context.Context, e *eventlogger.Event) (*eventlogger.Event, error) {
	return nil, nil
}
func (*zSink) Reopen() error              { return zc["zsink"].reopen() }
func (*zSink) Type() eventlogger.NodeType { return eventlogger.NodeTypeSink }

// a sink that owns its formatter as first field
type fmtPart struct{ c cnt }

func (f *fmtPart) Process(_ context.Context, e *eventlogger.Event) (*eventlogger.Event, error) {
	return e, nil
}
func (f *fmtPart) Reopen() error              { return f.c.reopen() }
func (f *fmtPart) Type() eventlogger.NodeType { return eventlogger.NodeTypeFormatter }

type output struct {
	Format fmtPart
	c      cnt
}

func (o *output) Process(_ context.Context, e *eventlogger.Event) (*eventlogger.Event, error) {
	return nil, nil
}
func (o *output) Reopen() error              { return o.c.reopen() }
func (o *output) Type() eventlogger.NodeType { return eventlogger.NodeTypeSink }

func TestC20Shapes(t *testing.T) {
	sec := stats.Sec("node_shapes", ruleShapes)
	rapid.Check(t, func(t *rapid.T) {
		for _, c := range zc {
			c.reopens.Store(0)
			c.err = nil
		}
		b, _ := eventlogger.NewBroker()
		np := rapid.IntRange(1, 4).Draw(t, "pipelines")
		var all []*cnt
		seenZ := map[string]bool{}
		var desc []string
		aliased := false
		perType := map[string]int{} // nodes per event type living at a shared address
		for i := 0; i < np; i++ {
			et := rapid.SampledFrom([]string{"A", "A", "B"}).Draw(t, fmt.Sprintf("type%d", i))
			var ids []eventlogger.NodeID
			var shapes []string
			add := func(role string, n eventlogger.Node) {
				id := eventlogger.NodeID(fmt.Sprintf("p%d.%s", i, role))
				if err := b.RegisterNode(id, n); err != nil {
					t.Fatalf("harness: RegisterNode %s: %v", id, err)
				}
				ids = append(ids, id)
			}
			newc := func(role string) *cnt {
				c := &cnt{name: fmt.Sprintf("p%d.%s", i, role)}
				all = append(all, c)
				return c
			}
			z := func(name string) {
				if !seenZ[name] {
					seenZ[name] = true
					all = append(all, zc[name])
				}
				perType[et]++
			}
			mkGeneric := func(role string, nt eventlogger.NodeType, shape string) eventlogger.Node {
				switch shape {
				case "value":
					return vnode{c: newc(role), t: nt}
				case "uncomparable":
					return unode{c: newc(role), t: nt, pad: []int{1}}
				}
				return &pnode{c: newc(role), t: nt}
			}
			if fs := rapid.SampledFrom([]string{"none", "pointer", "value", "uncomparable", "zero-size"}).Draw(t, fmt.Sprintf("filter%d", i)); fs != "none" {
				shapes = append(shapes, "filter:"+fs)
				if fs == "zero-size" {
					z("zfilter")
					add("filter", &zFilter{})
				} else {
					add("filter", mkGeneric("filter", eventlogger.NodeTypeFilter, fs))
				}
			}
			fshape := rapid.SampledFrom([]string{"pointer", "value", "uncomparable", "zero-size", "zero-size-2", "first-field-of-sink"}).Draw(t, fmt.Sprintf("fmt%d", i))
			sshape := rapid.SampledFrom([]string{"pointer", "value", "uncomparable", "zero-size"}).Draw(t, fmt.Sprintf("sink%d", i))
			switch fshape {
			case "zero-size":
				z("zfmt")
				add("fmt", &zFmt{})
			case "zero-size-2":
				z("zfmt2")
				add("fmt", &zFmt2{})
			case "first-field-of-sink":
				o := &output{}
				o.Format.c.name = fmt.Sprintf("p%d.fmt(first field of sink)", i)
				o.c.name = fmt.Sprintf("p%d.sink(owner of formatter)", i)
				all = append(all, &o.Format.c, &o.c)
				add("fmt", &o.Format)
				add("sink", o)
				sshape = "owner"
				aliased = true
			default:
				add("fmt", mkGeneric("fmt", eventlogger.NodeTypeFormatter, fshape))
			}
			switch sshape {
			case "owner":
			case "zero-size":
				z("zsink")
				add("sink", &zSink{})
			default:
				add("sink", mkGeneric("sink", eventlogger.NodeTypeSink, sshape))
			}
			shapes = append(shapes, "fmt:"+fshape, "sink:"+sshape)
			if err := b.RegisterPipeline(eventlogger.Pipeline{PipelineID: eventlogger.PipelineID(fmt.Sprintf("p%d", i)), EventType: eventlogger.EventType(et), NodeIDs: ids}); err != nil {
				t.Fatalf("harness: RegisterPipeline: %v", err)
			}
			desc = append(desc, et+"["+strings.Join(shapes, " ")+"]")
		}
		for _, n := range perType {
			if n >= 2 {
				aliased = true
			}
		}
		d := strings.Join(desc, " ")
		if err := b.Reopen(context.Background()); err != nil {
			t.Fatalf("VIOLATION C20: Reopen failed although no node fails: %v\ncase: %s", err, d)
		}
		for _, c := range all {
			if c.reopens.Load() < 1 {
				t.Fatalf("VIOLATION C20: node %s is part of a registered pipeline but was not reopened\ncase: %s", c.name, d)
			}
		}
		for _, c := range all {
			for _, x := range all {
				x.reopens.Store(0)
				x.err = nil
			}
			sentinel := fmt.Errorf("reopen of %s failed (unique sentinel)", c.name)
			c.err = sentinel
			err := b.Reopen(context.Background())
			c.err = nil
			if err == nil {
				t.Fatalf("VIOLATION C20: Reopen returned nil although node %s failed to reopen\ncase: %s", c.name, d)
			}
			if !errors.Is(err, sentinel) && !strings.Contains(err.Error(), sentinel.Error()) {
				t.Fatalf("VIOLATION C20: Reopen's error %q does not carry the failure of node %s\ncase: %s", err, c.name, d)
			}
		}
		// several nodes fail in the same call: every node whose Reopen ran and failed must be carried by the error
		if len(all) >= 2 {
			for _, x := range all {
				x.reopens.Store(0)
				x.err = nil
			}
			failing := map[*cnt]error{}
			sameText := rapid.Bool().Draw(t, "identicalErrorTexts")
			for i, c := range all {
				if rapid.IntRange(0, 2).Draw(t, fmt.Sprintf("multiFail%d", i)) == 0 {
					if sameText {
						failing[c] = errors.New("reopen failed: disk full") // distinct error values whose texts are identical
					} else {
						failing[c] = fmt.Errorf("reopen of %s failed (unique sentinel, several failures)", c.name)
					}
					c.err = failing[c]
				}
			}
			err := b.Reopen(context.Background())
			invoked := 0
			for c := range failing {
				if c.reopens.Load() > 0 {
					invoked++
				}
			}
			for c, sentinel := range failing {
				c.err = nil
				if c.reopens.Load() == 0 {
					continue // the walk stopped before it reached this node
				}
				carried := err != nil && (errors.Is(err, sentinel) || (!sameText && strings.Contains(err.Error(), sentinel.Error())) || (sameText && strings.Count(err.Error(), sentinel.Error()) >= invoked))
				if !carried {
					t.Fatalf("VIOLATION C20: %d nodes failed to reopen in one call; node %s was invoked and failed, but the returned error (%v) does not carry its failure\ncase: %s", len(failing), c.name, err, d)
				}
			}
			if len(failing) >= 2 {
				sec.Class("several_failing_nodes")
			}
		}
		var cl []string
		if aliased {
			cl = append(cl, "nodes_sharing_an_address")
		}
		sec.Case(aliased, d, cl...)
	})
}

func TestC20ConcurrentOverwrite(t *testing.T) {
	sec := stats.Sec("concurrent_overwrite", ruleOver)
	rapid.Check(t, func(t *rapid.T) {
		b, _ := eventlogger.NewBroker()
		ntypes := rapid.IntRange(1, 3).Draw(t, "eventTypes")
		per := rapid.IntRange(1, 3).Draw(t, "pipelinesPerType")
		alternate := rapid.Bool().Draw(t, "alternateFormatter")
		rounds := rapid.SampledFrom([]int{300, 1000, 3000}).Draw(t, "reopens")
		var others []*cnt
		for ti := 0; ti < ntypes; ti++ {
			for pi := 0; pi < per; pi++ {
				c1, c2 := &cnt{name: fmt.Sprintf("t%d.p%d.fmt", ti, pi)}, &cnt{name: fmt.Sprintf("t%d.p%d.sink", ti, pi)}
				others = append(others, c1, c2)
				f, s := eventlogger.NodeID(c1.name), eventlogger.NodeID(c2.name)
				_ = b.RegisterNode(f, &pnode{c: c1, t: eventlogger.NodeTypeFormatter})
				_ = b.RegisterNode(s, &pnode{c: c2, t: eventlogger.NodeTypeSink})
				_ = b.RegisterPipeline(eventlogger.Pipeline{PipelineID: eventlogger.PipelineID(fmt.Sprintf("p%d", pi)), EventType: eventlogger.EventType(fmt.Sprintf("T%d", ti)), NodeIDs: []eventlogger.NodeID{f, s}})
			}
		}
		// the overwritten pipeline lives on the last event type
		sinkC := &cnt{name: "hot.sink"}
		_ = b.RegisterNode("hot.f1", &pnode{c: &cnt{name: "hot.f1"}, t: eventlogger.NodeTypeFormatter})
		_ = b.RegisterNode("hot.f2", &pnode{c: &cnt{name: "hot.f2"}, t: eventlogger.NodeTypeFormatter})
		_ = b.RegisterNode("hot.s", &pnode{c: sinkC, t: eventlogger.NodeTypeSink})
		hotType := eventlogger.EventType(fmt.Sprintf("T%d", ntypes-1))
		defs := []eventlogger.Pipeline{
			{PipelineID: "hot", EventType: hotType, NodeIDs: []eventlogger.NodeID{"hot.f1", "hot.s"}},
			{PipelineID: "hot", EventType: hotType, NodeIDs: []eventlogger.NodeID{"hot.f2", "hot.s"}},
		}
		if err := b.RegisterPipeline(defs[0]); err != nil {
			t.Fatalf("harness: %v", err)
		}
		var stop atomic.Bool
		var wg sync.WaitGroup
		var overwrites atomic.Int64
		wg.Add(1)
		go func() {
			defer wg.Done()
			for k := 0; !stop.Load(); k++ {
				d := defs[0]
				if alternate {
					d = defs[k%2]
				}
				_ = b.RegisterPipeline(d)
				overwrites.Add(1)
			}
		}()
		d := fmt.Sprintf("eventTypes=%d pipelinesPerType=%d alternateFormatter=%v reopens=%d", ntypes, per, alternate, rounds)
		for r := 0; r < rounds; r++ {
			before := sinkC.reopens.Load()
			err := b.Reopen(context.Background())
			if err != nil {
				stop.Store(true)
				wg.Wait()
				t.Fatalf("VIOLATION C20: Reopen failed although no node fails: %v\ncase: %s", err, d)
			}
			if sinkC.reopens.Load() == before {
				stop.Store(true)
				wg.Wait()
				t.Fatalf("VIOLATION C20: Reopen #%d returned nil without reopening the sink of pipeline \"hot\", which was registered throughout (it is only ever overwritten)\ncase: %s", r, d)
			}
		}
		stop.Store(true)
		wg.Wait()
		for _, c := range others {
			if c.reopens.Load() < int64(rounds) {
				t.Fatalf("VIOLATION C20: node %s was reopened %d times by %d Reopen calls\ncase: %s", c.name, c.reopens.Load(), rounds, d)
			}
		}
		cl := []string{fmt.Sprintf("eventTypes=%d", ntypes)}
		if overwrites.Load() > int64(rounds)/10 {
			cl = append(cl, "many_overwrites_during_reopens")
		}
		sec.Case(ntypes >= 2, d, cl...)
	})
}
