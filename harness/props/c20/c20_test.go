// C20 — Reopen reaches every node of every registered pipeline.
package c20

import (
	"context"
	"errors"
	"fmt"
	"strings"
	"testing"
	"time"

	"pgregory.net/rapid"
	"verif/harness/internal/bgen"
	"verif/harness/internal/model"
	"verif/harness/internal/nodes"
	"verif/harness/internal/stats"
)

func TestMain(m *testing.M) { stats.Main(m, "C20") }

const rule = "rapid: registry histories (3 event types, 4 pipeline ids, pooled shared nodes, overwritten/removed pipelines, re-registered node ids) followed by Broker.Reopen, first with no failing node, then with exactly one node instance (each instance held by a registered pipeline in turn) failing its Reopen with a unique error; oracle = every node instance held by a currently registered pipeline has Reopen count >= 1 and the result is nil / the result is non-nil and carries the failing node's error; non-trivial = >=2 event types have pipelines and a node instance is shared between pipelines; distinct = history descriptor"

type reopenErr struct{ n *nodes.N }

func (e *reopenErr) Error() string { return "reopen of " + e.n.Name + " failed (unique sentinel)" }

func TestC20Reopen(t *testing.T) {
	sec := stats.Sec("reopen", rule)
	maxSteps := stats.EnvInt("C20_STEPS", 10)
	rapid.Check(t, func(t *rapid.T) {
		x := model.NewExec()
		var hist []string
		for _, op := range bgen.Setup(t) {
			x.Apply(op)
		}
		steps := bgen.GenSteps(t, maxSteps, rapid.Bool().Draw(t, "distinctRoots"), 0)
		for _, st := range steps {
			if st.Op == nil {
				continue
			}
			x.Apply(*st.Op)
			hist = append(hist, st.Op.String())
		}
		// instances held by currently registered pipelines
		held := map[*nodes.N]int{}
		types := map[string]bool{}
		var order []*nodes.N
		for _, p := range x.Pipes {
			types[string(p.Key.ET)] = true
			seen := map[*nodes.N]bool{}
			for _, n := range p.Insts {
				if !seen[n] {
					seen[n] = true
					if held[n] == 0 {
						order = append(order, n)
					}
					held[n]++
				}
			}
		}
		sharedInst := false
		for _, c := range held {
			if c > 1 {
				sharedInst = true
			}
		}
		reset := func() {
			for _, n := range x.All {
				n.Reopens.Store(0)
				n.ReopenErr = nil
			}
		}
		reset()
		if err := x.B.Reopen(context.Background()); err != nil {
			t.Fatalf("VIOLATION C20: Reopen failed although no node fails: %v\nhistory: %s", err, strings.Join(hist, "; "))
		}
		for n := range held {
			if n.Reopens.Load() < 1 {
				t.Fatalf("VIOLATION C20: node instance %s is held by a registered pipeline but was not reopened\nhistory: %s", n.Name, strings.Join(hist, "; "))
			}
		}
		// every single failing node in turn (bounded: the drawn subset when there are many)
		for i, n := range order {
			if len(order) > 6 && rapid.IntRange(0, 1).Draw(t, fmt.Sprintf("skipFail%d", i)) == 0 {
				continue
			}
			reset()
			sentinel := &reopenErr{n}
			n.ReopenErr = sentinel
			// the context handed to Reopen may be live, cancelled or past its deadline: a failure that occurred is carried either way
			rctx, rcancel := context.Background(), func() {}
			ctxKind := rapid.SampledFrom([]string{"live", "live", "cancelled", "deadline-passed"}).Draw(t, fmt.Sprintf("reopenCtx%d", i))
			switch ctxKind {
			case "cancelled":
				rctx, rcancel = context.WithCancel(context.Background())
				rcancel()
			case "deadline-passed":
				rctx, rcancel = context.WithDeadline(context.Background(), time.Now().Add(-time.Minute))
			}
			err := x.B.Reopen(rctx)
			rcancel()
			if ctxKind != "live" && n.Reopens.Load() == 0 {
				continue // the node was not asked to reopen at all under a done context: nothing failed
			}
			if ctxKind != "live" {
				sec.Class("failing_node_under_done_context")
			}
			if err == nil {
				t.Fatalf("VIOLATION C20: Reopen (context %s) returned nil although node %s failed to reopen\nhistory: %s", ctxKind, n.Name, strings.Join(hist, "; "))
			}
			if !errors.Is(err, sentinel) && !strings.Contains(err.Error(), sentinel.Error()) {
				t.Fatalf("VIOLATION C20: Reopen's error %q (context %s) does not carry the failure of node %s\nhistory: %s", err, ctxKind, n.Name, strings.Join(hist, "; "))
			}
			sec.Class("single_failing_node")
		}
		var cl []string
		if len(types) >= 2 {
			cl = append(cl, "multi_type")
		}
		if sharedInst {
			cl = append(cl, "shared_instance")
		}
		if len(x.Pipes) == 0 {
			cl = append(cl, "no_pipelines")
		}
		sec.Case(len(types) >= 2 && sharedInst, strings.Join(hist, "; "), cl...)
	})
}
