package c20

import (
	"context"
	"errors"
	"fmt"
	"strings"
	"testing"
	"time"

	"github.com/hashicorp/eventlogger"
	"pgregory.net/rapid"
	"verif/harness/internal/simul"
	"verif/harness/internal/stats"
)

const ruleLive = "rapid: a broker with 1-3 pipelines; a pipeline for a NEW event type gets registered while a Reopen is under way - either by a node's own Reopen calling back into the broker, or from the test while another goroutine's Reopen is parked inside a node - optionally preceded by threshold setters naming the new type; then a further Reopen is called (in the parked variant: while the first one is still parked); oracle = that further Reopen, which started after the registration had returned, reopens every node of the new pipeline and carries the failure if its sink fails; non-trivial = always; distinct = configuration"

func TestC20RegistrationDuringReopen(t *testing.T) {
	sec := stats.Sec("registration_during_reopen", ruleLive)
	rapid.Check(t, func(t *rapid.T) {
		mode := rapid.SampledFrom([]string{"reentrant", "reentrant", "parked"}).Draw(t, "mode")
		npipes := rapid.IntRange(1, 3).Draw(t, "pipelines")
		thrFirst := rapid.SampledFrom([]string{"", "", "thr", "thrsinks"}).Draw(t, "thresholdSetterFirst")
		failNew := rapid.Bool().Draw(t, "newSinkFails")
		warm := rapid.IntRange(0, 2).Draw(t, "reopensBefore")
		d := fmt.Sprintf("mode=%s pipelines=%d thresholdSetterFirst=%q newSinkFails=%v reopensBefore=%d", mode, npipes, thrFirst, failNew, warm)
		ctx := context.Background()
		b, _ := eventlogger.NewBroker()
		var hook *simul.Node
		for i := 0; i < npipes; i++ {
			m, s := simul.New(fmt.Sprintf("m%d", i), eventlogger.NodeTypeFormatter), simul.New(fmt.Sprintf("s%d", i), eventlogger.NodeTypeSink)
			if i == 0 {
				hook = m
			}
			_ = b.RegisterNode(eventlogger.NodeID(m.Name), m)
			_ = b.RegisterNode(eventlogger.NodeID(s.Name), s)
			if err := b.RegisterPipeline(eventlogger.Pipeline{PipelineID: eventlogger.PipelineID(fmt.Sprintf("p%d", i)), EventType: eventlogger.EventType(fmt.Sprintf("T%d", i%2)), NodeIDs: []eventlogger.NodeID{eventlogger.NodeID(m.Name), eventlogger.NodeID(s.Name)}}); err != nil {
				t.Fatalf("harness: %v", err)
			}
		}
		for i := 0; i < warm; i++ {
			if err := b.Reopen(ctx); err != nil {
				t.Fatalf("VIOLATION C20: Reopen failed although no node fails: %v\ncase: %s", err, d)
			}
		}
		newM, newS := simul.New("newM", eventlogger.NodeTypeFormatter), simul.New("newS", eventlogger.NodeTypeSink)
		sentinel := errors.New("reopen of newS failed (unique sentinel)")
		registerNew := func() {
			switch thrFirst {
			case "thr":
				_ = b.SetSuccessThreshold("NEW", 0)
			case "thrsinks":
				_ = b.SetSuccessThresholdSinks("NEW", 0)
			}
			_ = b.RegisterNode("newM", newM)
			_ = b.RegisterNode("newS", newS)
			if err := b.RegisterPipeline(eventlogger.Pipeline{PipelineID: "pn", EventType: "NEW", NodeIDs: []eventlogger.NodeID{"newM", "newS"}}); err != nil {
				panic("harness: " + err.Error())
			}
		}
		armed := true
		parked := make(chan struct{})
		release := make(chan struct{})
		hook.OnReopen = func(int64) error {
			if !armed {
				return nil
			}
			armed = false
			if mode == "reentrant" {
				registerNew()
				return nil
			}
			close(parked)
			<-release
			return nil
		}
		firstDone := make(chan error, 1)
		go func() { firstDone <- b.Reopen(ctx) }()
		if mode == "parked" {
			select {
			case <-parked:
			case <-time.After(10 * time.Second):
				fmt.Printf("\nINCONCLUSIVE-MARK the first Reopen never reached the node\n")
				t.Skip("inconclusive")
			}
			registerNew() // returns while the first Reopen is still parked inside a node
		} else {
			if err := <-firstDone; err != nil {
				t.Fatalf("VIOLATION C20: Reopen failed although no node fails: %v\ncase: %s", err, d)
			}
		}
		if failNew {
			newS.OnReopen = func(int64) error { return sentinel }
		}
		before := newS.Reopened.Load()
		secondDone := make(chan error, 1)
		go func() { secondDone <- b.Reopen(ctx) }()
		var err error
		select {
		case err = <-secondDone:
		case <-time.After(300 * time.Millisecond):
			// the second call may legitimately wait for the first one: let the first one go
			if mode == "parked" {
				close(release)
				release = nil
			}
			select {
			case err = <-secondDone:
			case <-time.After(10 * time.Second):
				t.Fatalf("VIOLATION C20: a Reopen did not return within 10s\ncase: %s", d)
			}
		}
		if mode == "parked" {
			if release != nil {
				close(release)
			}
			<-firstDone
		}
		// (when the sink fails the walk may stop before it reaches the formatter, whatever its order)
		if newS.Reopened.Load() == before || (!failNew && newM.Reopened.Load() == 0) {
			t.Fatalf("VIOLATION C20: a Reopen that started after the pipeline of event type NEW had been registered returned (err=%v) without reopening its nodes (formatter reopened %d times, sink %d times)\ncase: %s", err, newM.Reopened.Load(), newS.Reopened.Load()-before, d)
		}
		if failNew {
			if err == nil || (!errors.Is(err, sentinel) && !strings.Contains(err.Error(), sentinel.Error())) {
				t.Fatalf("VIOLATION C20: the new pipeline's sink failed to reopen but Reopen returned %v\ncase: %s", err, d)
			}
		} else if err != nil {
			t.Fatalf("VIOLATION C20: Reopen failed although no node fails: %v\ncase: %s", err, d)
		}
		sec.Case(true, d, "mode="+mode)
	})
}

const ruleRemove = "rapid: 3-5 pipelines for one event type registered in order; the first node of a drawn pipeline, from inside its Reopen, removes its own pipeline, an earlier one or a later one; oracle = that same Broker.Reopen call still reopens every node of every pipeline that stayed registered throughout and returns nil; non-trivial = a pipeline registered after the removed one exists; distinct = configuration"

// TestC20RemovalDuringReopen: pipelines that stay registered are reached although another one disappears mid-walk.
func TestC20RemovalDuringReopen(t *testing.T) {
	sec := stats.Sec("removal_during_reopen", ruleRemove)
	rapid.Check(t, func(t *rapid.T) {
		np := rapid.IntRange(3, 5).Draw(t, "pipelines")
		actor := rapid.IntRange(0, np-1).Draw(t, "actingPipeline")
		target := rapid.IntRange(0, np-1).Draw(t, "removedPipeline")
		d := fmt.Sprintf("pipelines=%d actor=p%d removes=p%d", np, actor, target)
		b, _ := eventlogger.NewBroker()
		var ms, ss []*simul.Node
		for i := 0; i < np; i++ {
			m, s := simul.New(fmt.Sprintf("m%d", i), eventlogger.NodeTypeFormatter), simul.New(fmt.Sprintf("s%d", i), eventlogger.NodeTypeSink)
			ms, ss = append(ms, m), append(ss, s)
			_ = b.RegisterNode(eventlogger.NodeID(m.Name), m)
			_ = b.RegisterNode(eventlogger.NodeID(s.Name), s)
			if err := b.RegisterPipeline(eventlogger.Pipeline{PipelineID: eventlogger.PipelineID(fmt.Sprintf("p%d", i)), EventType: "T", NodeIDs: []eventlogger.NodeID{eventlogger.NodeID(m.Name), eventlogger.NodeID(s.Name)}}); err != nil {
				t.Fatalf("harness: %v", err)
			}
		}
		acted := false
		ms[actor].OnReopen = func(int64) error {
			if !acted {
				acted = true
				_ = b.RemovePipeline("T", eventlogger.PipelineID(fmt.Sprintf("p%d", target)))
			}
			return nil
		}
		if err := b.Reopen(context.Background()); err != nil {
			t.Fatalf("VIOLATION C20: Reopen failed although no node fails: %v\ncase: %s", err, d)
		}
		for i := 0; i < np; i++ {
			if i == target {
				continue
			}
			if ms[i].Reopened.Load() == 0 || ss[i].Reopened.Load() == 0 {
				t.Fatalf("VIOLATION C20: pipeline p%d stayed registered during the whole Reopen (another pipeline, p%d, was removed from inside a node's Reopen) but was not reopened (formatter %d, sink %d)\ncase: %s", i, target, ms[i].Reopened.Load(), ss[i].Reopened.Load(), d)
			}
		}
		sec.Case(target < np-1, d, fmt.Sprintf("own=%v", target == actor))
	})
}
