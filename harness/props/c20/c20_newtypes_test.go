package c20

import (
	"context"
	"fmt"
	"runtime"
	"sync"
	"sync/atomic"
	"testing"

	"github.com/hashicorp/eventlogger"
	"pgregory.net/rapid"
	"verif/harness/internal/simul"
	"verif/harness/internal/stats"
)

const ruleNewTypes = "rapid, built with -race: a Broker with 1-3 pipelines; 1-3 goroutines call Broker.Reopen in a loop while another goroutine, not synchronised with them, names 20-80 event types for the first time (RegisterPipeline, SetSuccessThreshold or SetSuccessThresholdSinks as the first call of a type); oracle = no data race and no crash in library code, every Reopen call returns nil (no node fails), and a Reopen made after everything joined invokes Reopen on every node of every registered pipeline; non-trivial = at least one Reopen call overlapped the registrations; distinct = configuration"

// TestC20ReopenVersusNewTypes: Reopen walks "every currently registered pipeline of every event type" while the set of
// event types grows.
func TestC20ReopenVersusNewTypes(t *testing.T) {
	sec := stats.Sec("reopen_vs_new_types", ruleNewTypes)
	rapid.Check(t, func(t *rapid.T) {
		npipes := rapid.IntRange(1, 3).Draw(t, "pipelines")
		reopeners := rapid.IntRange(1, 3).Draw(t, "reopeners")
		ntypes := rapid.IntRange(20, 80).Draw(t, "newTypes")
		first := rapid.SampledFrom([]string{"pipeline", "pipeline", "thr", "thrsinks", "mixed"}).Draw(t, "firstCall")
		d := fmt.Sprintf("pipelines=%d reopeners=%d newTypes=%d firstCall=%s", npipes, reopeners, ntypes, first)
		ctx := context.Background()
		b, _ := eventlogger.NewBroker()
		var all []*simul.Node
		reg := func(name string, et eventlogger.EventType) {
			m, s := simul.New("m-"+name, eventlogger.NodeTypeFormatter), simul.New("s-"+name, eventlogger.NodeTypeSink)
			m.Yield, s.Yield = false, false
			_ = b.RegisterNode(eventlogger.NodeID(m.Name), m)
			_ = b.RegisterNode(eventlogger.NodeID(s.Name), s)
			if err := b.RegisterPipeline(eventlogger.Pipeline{PipelineID: eventlogger.PipelineID("p-" + name), EventType: et, NodeIDs: []eventlogger.NodeID{eventlogger.NodeID(m.Name), eventlogger.NodeID(s.Name)}}); err != nil {
				panic("harness: " + err.Error())
			}
			all = append(all, m, s)
		}
		for i := 0; i < npipes; i++ {
			reg(fmt.Sprintf("base%d", i), eventlogger.EventType(fmt.Sprintf("B%d", i%2)))
		}
		var stop atomic.Bool
		var registering atomic.Bool
		var overlapped, started atomic.Int64
		var wg sync.WaitGroup
		errs := make([]error, reopeners)
		for r := 0; r < reopeners; r++ {
			wg.Add(1)
			go func(r int) {
				defer wg.Done()
				for !stop.Load() {
					started.Add(1)
					if registering.Load() {
						overlapped.Add(1)
					}
					if err := b.Reopen(ctx); err != nil && errs[r] == nil {
						errs[r] = err
					}
				}
			}(r)
		}
		for started.Load() < int64(reopeners) {
			runtime.Gosched()
		}
		registering.Store(true)
		for k := 0; k < ntypes; k++ {
			et := eventlogger.EventType(fmt.Sprintf("N%d", k))
			f := first
			if f == "mixed" {
				f = []string{"pipeline", "thr", "thrsinks"}[k%3]
			}
			switch f {
			case "thr":
				_ = b.SetSuccessThreshold(et, 0)
			case "thrsinks":
				_ = b.SetSuccessThresholdSinks(et, 0)
			}
			if f == "pipeline" || k%4 == 0 {
				reg(fmt.Sprintf("n%d", k), et)
			}
		}
		registering.Store(false)
		stop.Store(true)
		wg.Wait()
		for r, err := range errs {
			if err != nil {
				t.Fatalf("VIOLATION C20: Reopen (goroutine %d) failed although no node fails: %v\ncase: %s", r, err, d)
			}
		}
		before := make([]int64, len(all))
		for i, n := range all {
			before[i] = n.Reopened.Load()
		}
		if err := b.Reopen(ctx); err != nil {
			t.Fatalf("VIOLATION C20: final Reopen failed although no node fails: %v\ncase: %s", err, d)
		}
		for i, n := range all {
			if n.Reopened.Load() == before[i] {
				t.Fatalf("VIOLATION C20: node %s of a registered pipeline was not reopened by a Reopen made after all registrations had returned\ncase: %s", n.Name, d)
			}
		}
		sec.Case(overlapped.Load() > 0, d, "firstCall="+first)
	})
}
