package c20

import (
	"context"
	"fmt"
	"os"
	"path/filepath"
	"strings"
	"testing"

	"github.com/hashicorp/eventlogger"
	"pgregory.net/rapid"
	"verif/harness/internal/stats"
)

const ruleStock = "rapid: 2-4 pipelines [JSONFormatter, FileSink] whose FileSinks are distinct nodes that share a directory (different file names, some prefixes of one another) or, per draw, use directories of their own; after one event each, every active log file is moved away (as logrotate does) and Broker.Reopen is called once; oracle = Reopen returns nil and the next event of every pipeline lands in a new file of the configured name, not in the moved-away one (a FileSink that was not reopened keeps writing to the file it holds); non-trivial = at least two sinks share a directory; distinct = configuration"

// TestC20StockFileSinks: "invokes Reopen at least once on every node", observed through what the library's own sink does.
func TestC20StockFileSinks(t *testing.T) {
	sec := stats.Sec("stock_file_sinks", ruleStock)
	root, err := os.MkdirTemp("", "verif-c20s-")
	if err != nil {
		t.Skip(err.Error())
	}
	defer os.RemoveAll(root)
	caseNo := 0
	rapid.Check(t, func(t *rapid.T) {
		caseNo++
		n := rapid.IntRange(2, 4).Draw(t, "sinks")
		shared := rapid.IntRange(0, 3).Draw(t, "sharedDirectory") > 0
		sameType := rapid.Bool().Draw(t, "oneEventType")
		names := []string{"audit.log", "audit-copy.log", "audit2.log", "a.log"}
		base := filepath.Join(root, fmt.Sprintf("c%d", caseNo))
		defer os.RemoveAll(base)
		b, _ := eventlogger.NewBroker()
		ctx := context.Background()
		var files []string
		var ets []eventlogger.EventType
		for i := 0; i < n; i++ {
			dir := filepath.Join(base, "logs")
			if !shared {
				dir = filepath.Join(base, fmt.Sprintf("logs%d", i))
			}
			fs := &eventlogger.FileSink{Path: dir, FileName: names[i], TimestampOnlyOnRotate: true}
			files = append(files, filepath.Join(dir, names[i]))
			fid, sid := eventlogger.NodeID(fmt.Sprintf("m%d", i)), eventlogger.NodeID(fmt.Sprintf("s%d", i))
			_ = b.RegisterNode(fid, &eventlogger.JSONFormatter{})
			_ = b.RegisterNode(sid, fs)
			et := eventlogger.EventType("T")
			if !sameType {
				et = eventlogger.EventType(fmt.Sprintf("T%d", i))
			}
			ets = append(ets, et)
			if err := b.RegisterPipeline(eventlogger.Pipeline{PipelineID: eventlogger.PipelineID(fmt.Sprintf("p%d", i)), EventType: et, NodeIDs: []eventlogger.NodeID{fid, sid}}); err != nil {
				t.Fatalf("harness: %v", err)
			}
		}
		d := fmt.Sprintf("sinks=%d sharedDirectory=%v oneEventType=%v", n, shared, sameType)
		send := func() {
			seen := map[eventlogger.EventType]bool{}
			for _, et := range ets {
				if !seen[et] {
					seen[et] = true
					_, _ = b.Send(ctx, et, map[string]interface{}{"k": "v"})
				}
			}
		}
		send()
		for _, f := range files {
			if err := os.Rename(f, f+".1"); err != nil {
				t.Fatalf("VIOLATION C20: after one event the log file %s does not exist: %v\ncase: %s", f, err, d)
			}
		}
		if err := b.Reopen(ctx); err != nil {
			t.Fatalf("VIOLATION C20: Reopen failed although no node fails: %v\ncase: %s", err, d)
		}
		// a FileSink that was reopened writes to a file of the configured name again (whether it re-creates the file at
		// Reopen or at the next write is its own business); one that was not still holds the moved-away file
		sizes := map[string]int64{}
		for _, f := range files {
			if st, err := os.Stat(f + ".1"); err == nil {
				sizes[f] = st.Size()
			}
		}
		send()
		var missing []string
		for _, f := range files {
			st, err := os.Stat(f)
			moved, _ := os.Stat(f + ".1")
			if err != nil || st.Size() == 0 || (moved != nil && moved.Size() != sizes[f]) {
				missing = append(missing, filepath.Base(f))
			}
		}
		if len(missing) > 0 {
			t.Fatalf("VIOLATION C20: every sink's log file had been moved away, Broker.Reopen returned nil, yet the next event did not land in a new file named %s (it went to the moved-away file or nowhere): the FileSink node(s) writing them were not reopened\ncase: %s", strings.Join(missing, ", "), d)
		}
		sec.Case(shared, d, fmt.Sprintf("shared=%v", shared))
	})
}
