package c02

import (
	"context"
	"fmt"
	"testing"
	"time"

	"github.com/hashicorp/eventlogger"
	"pgregory.net/rapid"
	"verif/harness/internal/simul"
	"verif/harness/internal/stats"
)

const ruleFirstTouch = "rapid: one Broker, 150 rounds per case, each round uses an event type no call has named before; SetSuccessThreshold(a), SetSuccessThresholdSinks(b) and 1-3 RegisterPipeline calls for that type (optionally a threshold getter as well) are released at the same instant (spin barrier); oracle = afterwards both thresholds read back as set, a Send (live context) reports one entry per registered pipeline, and it returns an error exactly when completes < a or complete sinks < b; non-trivial = both setters and a registration raced on the new type; distinct = configuration"

// TestC02FirstTouch: "Thresholds are per event type ... read back as last set" and "exactly one such entry per
// registered pipeline" when the setters and the first registration are the first calls ever to name the type.
func TestC02FirstTouch(t *testing.T) {
	sec := stats.Sec("first_touch", ruleFirstTouch)
	rapid.Check(t, func(t *rapid.T) {
		nreg := rapid.IntRange(1, 3).Draw(t, "registrations")
		a := rapid.IntRange(1, 4).Draw(t, "threshold")
		sk := rapid.IntRange(1, 4).Draw(t, "sinkThreshold")
		getter := rapid.Bool().Draw(t, "getter")
		d := fmt.Sprintf("registrations=%d threshold=%d sinkThreshold=%d getter=%v", nreg, a, sk, getter)
		b, _ := eventlogger.NewBroker()
		ctx := context.Background()
		for round := 0; round < 150; round++ {
			et := eventlogger.EventType(fmt.Sprintf("T%d", round))
			ids := make([][]eventlogger.NodeID, nreg)
			for i := range ids {
				for _, x := range []struct {
					n string
					t eventlogger.NodeType
				}{{"m", eventlogger.NodeTypeFormatter}, {"s", eventlogger.NodeTypeSink}} {
					n := simul.New(fmt.Sprintf("%s%d-%d", x.n, round, i), x.t)
					n.Yield = false
					if err := b.RegisterNode(eventlogger.NodeID(n.Name), n); err != nil {
						t.Fatalf("harness: %v", err)
					}
					ids[i] = append(ids[i], eventlogger.NodeID(n.Name))
				}
			}
			errs := make([]error, nreg+2)
			fs := []func(){
				func() { errs[nreg] = b.SetSuccessThreshold(et, a) },
				func() { errs[nreg+1] = b.SetSuccessThresholdSinks(et, sk) },
			}
			for i := range ids {
				i := i
				fs = append(fs, func() {
					errs[i] = b.RegisterPipeline(eventlogger.Pipeline{PipelineID: eventlogger.PipelineID(fmt.Sprintf("p%d", i)), EventType: et, NodeIDs: ids[i]})
				})
			}
			if getter {
				fs = append(fs, func() { _, _ = b.SuccessThreshold(et) })
			}
			if !simul.Burst(20*time.Second, fs...) {
				fmt.Printf("\nINCONCLUSIVE-MARK first-touch burst did not return (round %d)\n", round)
				t.Skip("inconclusive")
			}
			for i, err := range errs {
				if err != nil {
					t.Fatalf("VIOLATION C02: call %d of the burst on the new event type %s failed: %v\ncase: %s", i, et, err, d)
				}
			}
			ga, okA := b.SuccessThreshold(et)
			gs, okS := b.SuccessThresholdSinks(et)
			if ga != a || gs != sk || !okA || !okS {
				t.Fatalf("VIOLATION C02: thresholds of %s were set to %d / %d (both calls returned nil, beside %d first registrations), they read back as %d (%v) / %d (%v)\ncase: %s round=%d", et, a, sk, nreg, ga, okA, gs, okS, d, round)
			}
			st, err := b.Send(ctx, et, "x")
			if n := len(st.Complete()) + len(st.Warnings); n != nreg || len(st.CompleteSinks()) != nreg {
				t.Fatalf("VIOLATION C02: %d pipelines were registered for the new type %s (nil errors), the context is live, Status has %d entries and %d complete sinks\ncase: %s round=%d", nreg, et, n, len(st.CompleteSinks()), d, round)
			}
			if wantErr := nreg < a || nreg < sk; (err != nil) != wantErr {
				t.Fatalf("VIOLATION C02: %d completes / %d complete sinks, thresholds %d / %d: Send returned %v\ncase: %s round=%d", nreg, nreg, a, sk, err, d, round)
			}
			for i := range ids {
				_, _ = b.RemovePipelineAndNodes(ctx, et, eventlogger.PipelineID(fmt.Sprintf("p%d", i)))
			}
		}
		sec.Case(nreg >= 1, d, fmt.Sprintf("registrations=%d", nreg))
	})
}
