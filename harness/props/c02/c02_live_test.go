package c02

import (
	"context"
	"fmt"
	"testing"

	"github.com/hashicorp/eventlogger"
	"pgregory.net/rapid"
	"verif/harness/internal/simul"
	"verif/harness/internal/stats"
)

const ruleLive = "rapid: 2-5 pipelines [root formatter sink] for one event type with the success threshold set to their number; during one Send (context live) the root node of a drawn pipeline re-registers another pipeline with an identical definition (or does nothing: control); oracle = completes + warnings = pipelines, complete sinks = pipelines, and Send returns no error (every pipeline id stayed registered throughout); non-trivial = the re-registered pipeline had not been started yet; distinct = configuration"

// TestC02OverwriteDuringSend: "when the context is not cancelled there is exactly one such entry per registered pipeline".
func TestC02OverwriteDuringSend(t *testing.T) {
	sec := stats.Sec("overwrite_during_send", ruleLive)
	rapid.Check(t, func(t *rapid.T) {
		np := rapid.IntRange(2, 5).Draw(t, "pipelines")
		actor := rapid.IntRange(0, np-1).Draw(t, "actingPipeline")
		target := rapid.IntRange(0, np-1).Draw(t, "targetPipeline")
		control := rapid.IntRange(0, 4).Draw(t, "control") == 0
		d := fmt.Sprintf("pipelines=%d actor=p%d reRegisters=p%d control=%v", np, actor, target, control)
		b, _ := eventlogger.NewBroker()
		ids := make([][]eventlogger.NodeID, np)
		var roots []*simul.Node
		for i := 0; i < np; i++ {
			for _, x := range []struct {
				n string
				t eventlogger.NodeType
			}{{"r", eventlogger.NodeTypeFilter}, {"m", eventlogger.NodeTypeFormatter}, {"s", eventlogger.NodeTypeSink}} {
				n := simul.New(fmt.Sprintf("%s%d", x.n, i), x.t)
				n.Yield = false
				if x.n == "r" {
					roots = append(roots, n)
				}
				_ = b.RegisterNode(eventlogger.NodeID(n.Name), n)
				ids[i] = append(ids[i], eventlogger.NodeID(n.Name))
			}
		}
		acted := false
		roots[actor].OnProcess = func() {
			if acted || control {
				return
			}
			acted = true
			_ = b.RegisterPipeline(eventlogger.Pipeline{PipelineID: eventlogger.PipelineID(fmt.Sprintf("p%d", target)), EventType: "T", NodeIDs: ids[target]})
		}
		for i := 0; i < np; i++ {
			if err := b.RegisterPipeline(eventlogger.Pipeline{PipelineID: eventlogger.PipelineID(fmt.Sprintf("p%d", i)), EventType: "T", NodeIDs: ids[i]}); err != nil {
				t.Fatalf("harness: %v", err)
			}
		}
		_ = b.SetSuccessThreshold("T", np)
		_ = b.SetSuccessThresholdSinks("T", np)
		st, err := b.Send(context.Background(), "T", "x")
		n := len(st.Complete()) + len(st.Warnings)
		if n != np || len(st.CompleteSinks()) != np {
			t.Fatalf("VIOLATION C02: %d pipelines are registered (one was re-registered with an identical definition during the Send), the context is live, but Status has %d entries (%d complete, %d complete sinks, %d warnings)\ncase: %s", np, n, len(st.Complete()), len(st.CompleteSinks()), len(st.Warnings), d)
		}
		if err != nil {
			t.Fatalf("VIOLATION C02: Send returned %v although %d of %d pipelines completed\ncase: %s", err, len(st.Complete()), np, d)
		}
		sec.Case(!control && target != actor, d, fmt.Sprintf("control=%v", control))
	})
}
