// C02 — Send's Status and error truthfully account for what the pipelines did.
package c02

import (
	"context"
	"errors"
	"fmt"
	"math"
	"sort"
	"strings"
	"testing"
	"time"

	"github.com/hashicorp/eventlogger"
	"pgregory.net/rapid"
	"verif/harness/internal/bgen"
	"verif/harness/internal/model"
	"verif/harness/internal/nodes"
	"verif/harness/internal/sched"
	"verif/harness/internal/stats"
)

// unmatchedWarning pairs every warning with a distinct error from pool (identity first, then errors.Is: a warning may
// wrap the node's error) and returns the first warning that finds no partner.
func unmatchedWarning(warnings []error, pool map[error]int) error {
	left := map[error]int{}
	for e, n := range pool {
		left[e] = n
	}
	var rest []error
	for _, w := range warnings {
		if left[w] > 0 {
			left[w]--
		} else {
			rest = append(rest, w)
		}
	}
next:
	for _, w := range rest {
		for e, n := range left {
			if n > 0 && e != nil && errors.Is(w, e) {
				left[e]--
				continue next
			}
		}
		return w
	}
	return nil
}

func TestMain(m *testing.M) { stats.Main(m, "C02") }

const rule = "rapid: registry history + threshold calls (both kinds, values -2..6, other types, empty type) interleaved with Sends whose per-node outcomes are scripted (pass/replace/drop/fail/fail+event) and whose context is live, pre-cancelled or cancelled by the hook at a drawn protocol point; oracle = reference accounting model (Complete/CompleteSinks/Warnings multisets, completes+warnings = pipelines when live, never invented under cancellation, err iff below a threshold computed from the returned Status, errors.Is(ctx.Err()) when the context was certainly done), threshold map model; non-trivial = outcome vector not all-success with a threshold > 0, or cancel landed on node.returned/status.send; distinct = history descriptor up to that Send"

type thrModel struct {
	thr, sinks map[string]int
	known      map[string]bool
}

func multiset(ids []eventlogger.NodeID) map[string]int {
	m := map[string]int{}
	for _, id := range ids {
		m[string(id)]++
	}
	return m
}

func fmtMS(m map[string]int) string {
	var ks []string
	for k, v := range m {
		ks = append(ks, fmt.Sprintf("%s×%d", k, v))
	}
	sort.Strings(ks)
	return "{" + strings.Join(ks, " ") + "}"
}

func subMS(a, b map[string]int) bool { // a ⊆ b
	for k, v := range a {
		if v > b[k] {
			return false
		}
	}
	return true
}

func eqMS(a, b map[string]int) bool { return subMS(a, b) && subMS(b, a) }

func checkSend(x *model.Exec, tm *thrModel, s *bgen.SendStep) (string, bool, []string) {
	script := bgen.ScriptFor(x, s.Script)
	lin := x.NewSend(script)
	lin.ErrKind = bgen.ErrKindsFor(x, s.ErrKinds)
	exp := x.Expect(s.ET, lin)
	x.W.Reset()
	plan := sched.Plan{Actions: s.Actions, CancelHit: -1}
	if s.Ctx == 2 {
		plan.CancelPoint, plan.CancelOcc = s.CancelPoint, s.CancelOcc
	}
	ctx, cancel, ctl := sched.WithKind(context.Background(), plan, s.CtxKind)
	defer cancel()
	if s.Ctx == 1 {
		cancel()
	}
	st, err := x.B.Send(ctx, eventlogger.EventType(s.ET), lin)
	_, cancelledAtReturn := ctl.Snapshot()
	ctxErrAtReturn := ctx.Err()
	if tr, _ := ctl.Snapshot(); len(tr) > 0 {
		if !sched.WaitPoint(ctl, "range.exit", 5*time.Second) {
			return "harness: fan-out goroutines did not finish within 5s (see C03)", false, nil
		}
	} else {
		// no hook hit: the Broker had no graph for this type
		if len(exp) > 0 && ctxErrAtReturn == nil {
			// (with a context that is already done a Send may return before it starts anything)
			return fmt.Sprintf("Send did not dispatch although %d pipeline(s) are registered for %s: %v", len(exp), s.ET, err), false, nil
		}
		if len(st.Complete())+len(st.CompleteSinks())+len(st.Warnings) != 0 {
			return "Status invented entries for a type without pipelines", false, nil
		}
		return "", false, []string{"no_graph"}
	}
	_, cancelledAt := ctl.Snapshot()
	live := s.Ctx == 0 || (s.Ctx == 2 && cancelledAt == "")
	calls := x.W.Calls()
	var classes []string

	// what really happened (observed), used for "never invented"
	lastKeys := map[string]bool{}
	for _, tr := range exp {
		if n := len(tr.Calls); n > 0 && n == len(tr.Pipe.Insts) {
			lastKeys[tr.Calls[n-1].Key()] = true
		}
	}
	obsComplete := map[string]int{}
	obsCompleteSink := map[string]int{} // ... of which by a node instance whose Type() is sink (an id's type may change between registrations)
	obsErrs := map[error]int{}
	for _, c := range calls {
		if c.SendID != lin.SendID {
			continue
		}
		switch {
		case c.Err != nil:
			obsErrs[c.Err]++
		case c.Out == nil, lastKeys[c.Node.Name+"@"+c.InLineage]:
			obsComplete[c.Node.ID]++
			if c.Node.T == eventlogger.NodeTypeSink {
				obsCompleteSink[c.Node.ID]++
			}
		}
	}
	gotC := multiset(st.Complete())
	gotS := multiset(st.CompleteSinks())
	if !subMS(gotC, obsComplete) {
		return fmt.Sprintf("Complete() %s reports traversals that did not end successfully (really ended: %s)", fmtMS(gotC), fmtMS(obsComplete)), false, nil
	}
	// every warning is - or carries, for errors.Is - a distinct error a node returned during this Send
	if w := unmatchedWarning(st.Warnings, obsErrs); w != nil {
		return fmt.Sprintf("Warnings contains an error (%T) which no node returned during this Send, or more often than it was returned", w), false, nil
	}
	// complete-sinks = exactly the sink entries of complete
	// (which completing instances are sinks is taken from the instances: an id may have been re-registered with another type)
	for id, n := range gotC {
		sinks, all := obsCompleteSink[id], obsComplete[id]
		lo, hi := n-(all-sinks), sinks // at least the entries that cannot be non-sinks, at most the sink completions
		if lo < 0 {
			lo = 0
		}
		if hi > n {
			hi = n
		}
		if gotS[id] < lo || gotS[id] > hi {
			return fmt.Sprintf("CompleteSinks() %s is not the sink sub-multiset of Complete() %s (node %q: %d of its %d completions were by a sink)", fmtMS(gotS), fmtMS(gotC), id, sinks, all), false, nil
		}
	}
	for id := range gotS {
		if gotC[id] == 0 {
			return fmt.Sprintf("CompleteSinks() %s lists %q which Complete() %s does not", fmtMS(gotS), id, fmtMS(gotC)), false, nil
		}
	}
	allSuccess := true
	if live {
		wantC := map[string]int{}
		wantW := map[error]int{}
		for _, tr := range exp {
			if tr.End == "complete" {
				wantC[tr.EndID]++
			} else {
				wantW[tr.Err]++
				allSuccess = false
			}
			if tr.End == "complete" && !tr.Sink {
				allSuccess = false
			}
		}
		if !eqMS(gotC, wantC) {
			return fmt.Sprintf("live context: Complete() %s, expected %s", fmtMS(gotC), fmtMS(wantC)), false, nil
		}
		nWant := 0
		for _, n := range wantW {
			nWant += n
		}
		if len(st.Warnings) != nWant || len(st.Warnings) != len(exp)-len(st.Complete()) {
			return fmt.Sprintf("live context: %d warnings + %d completes for %d pipelines", len(st.Warnings), len(st.Complete()), len(exp)), false, nil
		}
		if w := unmatchedWarning(st.Warnings, wantW); w != nil {
			return fmt.Sprintf("live context: a warning of type %T does not correspond to the error of a pipeline that ended in a failing node (each such error is reported once)", w), false, nil
		}
	} else {
		classes = append(classes, "cancelled")
		if cancelledAt != "" {
			classes = append(classes, "cancel_landed@"+cancelledAt)
		}
		if len(st.Complete())+len(st.Warnings) < len(exp) {
			classes = append(classes, "entries_missing_under_cancel")
		}
		allSuccess = false
	}
	// error iff below a threshold (computed from the returned status)
	thr, thrS := tm.thr[s.ET], tm.sinks[s.ET]
	wantErr := len(st.Complete()) < thr || len(st.CompleteSinks()) < thrS
	if (err != nil) != wantErr {
		return fmt.Sprintf("Send error=%v but completes=%d (threshold %d) complete sinks=%d (sink threshold %d)", err, len(st.Complete()), thr, len(st.CompleteSinks()), thrS), false, nil
	}
	if err != nil {
		classes = append(classes, "send_error")
		certainlyDone := s.Ctx == 1 || (cancelledAtReturn != "" && cancelledAtReturn != "range.exit" && ctxErrAtReturn != nil)
		if certainlyDone {
			if !errors.Is(err, context.Canceled) || !errors.Is(err, ctx.Err()) {
				return fmt.Sprintf("context was done before Send returned but the error does not wrap ctx.Err() (context flavour %d): %v", s.CtxKind, err), false, nil
			}
			classes = append(classes, "error_wraps_ctx")
		} else if s.Ctx != 0 {
			classes = append(classes, "ctx_clause_indeterminate")
		}
		if live && errors.Is(err, context.Canceled) {
			return "live context but the error wraps context.Canceled", false, nil
		}
	}
	nt := (!allSuccess && (thr > 0 || thrS > 0) && len(exp) > 0) || cancelledAt == "node.returned" || cancelledAt == "status.send"
	if thr > 0 || thrS > 0 {
		classes = append(classes, "threshold_set")
	}
	if len(exp) >= 2 {
		classes = append(classes, "multi_pipeline")
	}
	return "", nt, classes
}

func TestC02Status(t *testing.T) {
	sec := stats.Sec("status", rule)
	maxSteps := stats.EnvInt("C02_STEPS", 14)
	ets := []string{"A", "B", "C", "Z", ""}
	rapid.Check(t, func(t *rapid.T) {
		x := model.NewExec()
		for _, op := range bgen.Setup(t) {
			x.Apply(op)
		}
		tm := &thrModel{thr: map[string]int{}, sinks: map[string]int{}, known: map[string]bool{}}
		steps := bgen.GenSteps(t, maxSteps, rapid.Bool().Draw(t, "distinctRoots"), 4)
		var hist []string
		for i, st := range steps {
			// interleave threshold calls
			if rapid.IntRange(0, 2).Draw(t, fmt.Sprintf("thr?%d", i)) == 0 {
				et := rapid.SampledFrom(ets).Draw(t, "thrET")
				v := rapid.IntRange(-2, 6).Draw(t, "thrV")
				if rapid.IntRange(0, 7).Draw(t, "thrHuge") == 0 {
					v = rapid.SampledFrom([]int{math.MaxInt, math.MaxInt32, 1 << 44, math.MaxInt - 1, math.MinInt}).Draw(t, "thrHugeV")
				}
				sinks := rapid.Bool().Draw(t, "thrSinks")
				op := model.Op{K: "thr", ET: et, V: v}
				if sinks {
					op.K = "thrsinks"
				}
				hist = append(hist, op.String())
				r := x.Apply(op)
				wantOK := et != "" && v >= 0
				if (r.Err == nil) != wantOK {
					t.Fatalf("VIOLATION C02: %s returned %v\nhistory: %s", op, r.Err, strings.Join(hist, "; "))
				}
				if r.Err == nil {
					tm.known[et] = true
					if sinks {
						tm.sinks[et] = v
					} else {
						tm.thr[et] = v
					}
				}
				for _, e := range ets {
					g1, _ := x.B.SuccessThreshold(eventlogger.EventType(e))
					g2, _ := x.B.SuccessThresholdSinks(eventlogger.EventType(e))
					if g1 != tm.thr[e] || g2 != tm.sinks[e] {
						t.Fatalf("VIOLATION C02: thresholds of %q read back (%d,%d), last set (%d,%d)\nhistory: %s", e, g1, g2, tm.thr[e], tm.sinks[e], strings.Join(hist, "; "))
					}
				}
			}
			hist = append(hist, st.String())
			if st.Op != nil {
				x.Apply(*st.Op)
				continue
			}
			msg, nt, classes := checkSend(x, tm, st.Send)
			if msg != "" {
				t.Fatalf("VIOLATION C02: %s\nhistory: %s", msg, strings.Join(hist, "; "))
			}
			sec.Case(nt, strings.Join(hist, "; "), classes...)
		}
	})
}

var _ = nodes.Pass
