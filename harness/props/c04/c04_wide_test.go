package c04

import (
	"context"
	"fmt"
	"testing"
	"time"

	"github.com/hashicorp/eventlogger"
	"pgregory.net/rapid"
	"verif/harness/internal/simul"
	"verif/harness/internal/stats"
)

const ruleWide = "rapid: one event type with W filler pipelines (W drawn from 1..2000, all sharing one formatter and one sink) plus a target pipeline with nodes of its own; 30 trials per case: the target is (re-)registered, then one Send and one registry call on the target (RemovePipeline, RemovePipelineAndNodes, or RegisterPipeline of a second target) are released at the same instant; after both returned a probe Send is made; oracle = the probe Send, which started after the registry call had returned, traverses a removed target zero times and a registered one exactly once, and the racing Send traversed it at most once; non-trivial = W >= 100 (the walk over the registrations is long enough to overlap the call); distinct = configuration"

// TestC04WideRegistry: registry calls are linearizable for Send also when the event type has very many pipelines.
func TestC04WideRegistry(t *testing.T) {
	sec := stats.Sec("wide_registry", ruleWide)
	rapid.Check(t, func(t *rapid.T) {
		w := rapid.SampledFrom([]int{1, 20, 100, 400, 1000, 2000}).Draw(t, "fillers")
		call := rapid.SampledFrom([]string{"RemovePipeline", "RemovePipelineAndNodes", "RegisterSecond"}).Draw(t, "call")
		d := fmt.Sprintf("fillers=%d call=%s", w, call)
		ctx := context.Background()
		b, _ := eventlogger.NewBroker()
		fm, fs := simul.New("fm", eventlogger.NodeTypeFormatter), simul.New("fs", eventlogger.NodeTypeSink)
		fm.Yield, fs.Yield = false, false
		_ = b.RegisterNode("fm", fm)
		_ = b.RegisterNode("fs", fs)
		for i := 0; i < w; i++ {
			if err := b.RegisterPipeline(eventlogger.Pipeline{PipelineID: eventlogger.PipelineID(fmt.Sprintf("filler%d", i)), EventType: "T", NodeIDs: []eventlogger.NodeID{"fm", "fs"}}); err != nil {
				t.Fatalf("harness: %v", err)
			}
		}
		for trial := 0; trial < 30; trial++ {
			tm, ts := simul.New("tm", eventlogger.NodeTypeFormatter), simul.New("ts", eventlogger.NodeTypeSink)
			um, us := simul.New("um", eventlogger.NodeTypeFormatter), simul.New("us", eventlogger.NodeTypeSink)
			for _, n := range []*simul.Node{tm, ts, um, us} {
				n.Yield = false
				_ = b.RegisterNode(eventlogger.NodeID(n.Name), n)
			}
			if err := b.RegisterPipeline(eventlogger.Pipeline{PipelineID: "target", EventType: "T", NodeIDs: []eventlogger.NodeID{"tm", "ts"}}); err != nil {
				t.Fatalf("harness: %v", err)
			}
			var callErr error
			ok := simul.Burst(30*time.Second,
				func() { _, _ = b.Send(ctx, "T", "racing") },
				func() {
					switch call {
					case "RemovePipeline":
						callErr = b.RemovePipeline("T", "target")
					case "RemovePipelineAndNodes":
						_, callErr = b.RemovePipelineAndNodes(ctx, "T", "target")
					default:
						callErr = b.RegisterPipeline(eventlogger.Pipeline{PipelineID: "second", EventType: "T", NodeIDs: []eventlogger.NodeID{"um", "us"}})
					}
				})
			if !ok {
				fmt.Printf("\nINCONCLUSIVE-MARK burst did not return\n")
				t.Skip("inconclusive")
			}
			if callErr != nil {
				t.Fatalf("VIOLATION C04: %s failed: %v\ncase: %s", call, callErr, d)
			}
			if tsN := ts.Processed.Load(); tsN > 1 {
				t.Fatalf("VIOLATION C04: the racing Send traversed the target pipeline %d times\ncase: %s", tsN, d)
			}
			t0, u0 := ts.Processed.Load(), us.Processed.Load()
			_, _ = b.Send(ctx, "T", "probe")
			dt, du := ts.Processed.Load()-t0, us.Processed.Load()-u0
			switch call {
			case "RegisterSecond":
				if dt != 1 || du != 1 {
					t.Fatalf("VIOLATION C04: a Send started after RegisterPipeline(second) had returned traversed the target %d and the second pipeline %d time(s), want 1 and 1 (%d other pipelines on the type, trial %d)\ncase: %s", dt, du, w, trial, d)
				}
				_ = b.RemovePipeline("T", "second")
				_ = b.RemovePipeline("T", "target")
			default:
				if dt != 0 {
					t.Fatalf("VIOLATION C04: a Send started after %s(target) had returned still traversed the removed pipeline (%d time(s); %d other pipelines on the type, trial %d)\ncase: %s", call, dt, w, trial, d)
				}
			}
		}
		sec.Case(w >= 100, d, "call="+call)
	})
}
