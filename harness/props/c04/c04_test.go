// C04 — Broker is race-free under concurrent use; registration is linearizable for Send.
package c04

import (
	"context"
	"fmt"
	"math"
	"runtime"
	"sort"
	"strings"
	"sync"
	"sync/atomic"
	"testing"
	"time"

	"github.com/anishathalye/porcupine"
	"github.com/hashicorp/eventlogger"
	"pgregory.net/rapid"
	"verif/harness/internal/model"
	"verif/harness/internal/nodes"
	"verif/harness/internal/stats"
)

func TestMain(m *testing.M) { stats.Main(m, "C04") }

const ruleConc = "rapid: 2-8 goroutines, each running a pre-drawn history of broker calls (RegisterNode, RegisterPipeline incl. overwrite, RemovePipeline, RemovePipelineAndNodes, RemoveNode, threshold setters/getters, IsAnyPipelineRegistered, Reopen) over 2 event types and a small id space, concurrently with 1-3 sender goroutines; built with -race: any race report with a library frame is a violation (classified by the driver), no panic; every pipeline incarnation has a private marker sink and calls are bracketed by logical timestamps: a Send after the registration returned and before the removal was requested is delivered exactly once, a Send after the removal returned never, an overlapping Send at most once; non-trivial = a Send overlapped a register/remove of a pipeline of its type and >=2 mutators ran; distinct = case descriptor"
const ruleLin = "rapid: 2-4 goroutines x <=5 registry calls each (RegisterNode with policies, RegisterPipeline incl. Deny and overwrite, RemovePipeline, RemovePipelineAndNodes, RemoveNode, thresholds, IsAnyPipelineRegistered) executed concurrently, then a sequential probe; oracle = porcupine.CheckOperations against the sequential registry specification (return values only); non-trivial = >=2 calls on the same id overlapped in time; distinct = history descriptor"

type incarnation struct {
	k         int
	et        string
	sink      *nodes.N
	regCall   int64
	regReturn int64
	rmCall    int64 // MaxInt64 = never
	rmReturn  int64
	ok        bool
	owner     int
	chain     int // incarnations that overwrite one another without a removal in between share a chain
}

type sendRec struct {
	id         int
	et         string
	start, end int64
}

func TestC04Concurrent(t *testing.T) {
	sec := stats.Sec("concurrent", ruleConc)
	rapid.Check(t, func(t *rapid.T) {
		nMut := rapid.IntRange(1, 5).Draw(t, "mutators")
		nSend := rapid.IntRange(1, 3).Draw(t, "senders")
		nOps := rapid.IntRange(3, 25).Draw(t, "opsPerMutator")
		nSends := rapid.IntRange(5, 60).Draw(t, "sendsPerSender")
		plans := make([][]int, nMut)
		for g := range plans {
			plans[g] = rapid.SliceOfN(rapid.IntRange(0, 13), nOps, nOps).Draw(t, fmt.Sprintf("plan%d", g))
		}
		if rapid.Bool().Draw(t, "continuousOverwriter") {
			// mutator 0 does nothing but overwrite its pipeline, a few hundred times, while the senders send
			// several times more: many overwrite windows
			long := make([]int, 8*len(plans[0]))
			plans[0] = long
			nSends *= 4
		}
		b, _ := eventlogger.NewBroker()
		w := &nodes.World{}
		var clock atomic.Int64
		stamp := func() int64 { return clock.Add(1) }
		_ = b.RegisterNode("f0", &nodes.N{W: w, Name: "f0", ID: "f0", T: eventlogger.NodeTypeFilter})
		_ = b.RegisterNode("m", &nodes.N{W: w, Name: "m", ID: "m", T: eventlogger.NodeTypeFormatter})
		var mu sync.Mutex
		var incs []*incarnation
		var sends []sendRec
		var badSinks []*nodes.N
		var badAccepted []string
		var kseq atomic.Int64
		ctx := context.Background()
		var wg sync.WaitGroup
		ets := []string{"A", "B"}
		for g := 0; g < nMut; g++ {
			wg.Add(1)
			go func(g int) {
				defer wg.Done()
				pid := eventlogger.PipelineID(fmt.Sprintf("p%d", g))
				var cur *incarnation
				for i, op := range plans[g] {
					et := ets[(g+i/4)%2]
					if g == 0 {
						et = "A"
					}
					switch op {
					case 0, 1, 2, 3: // register a new incarnation (overwrites the current one of the same type)
						k := int(kseq.Add(1))
						sid := eventlogger.NodeID(fmt.Sprintf("s%d", k))
						sink := &nodes.N{W: w, Name: string(sid), ID: string(sid), T: eventlogger.NodeTypeSink, OnType: yield}
						_ = b.RegisterNode(sid, sink)
						inc := &incarnation{k: k, et: et, sink: sink, rmCall: math.MaxInt64, rmReturn: math.MaxInt64}
						if cur != nil && cur.et != et {
							// leave the other type's incarnation alone: it keeps running under the same pipeline id
						}
						inc.regCall = stamp()
						err := b.RegisterPipeline(eventlogger.Pipeline{PipelineID: pid, EventType: eventlogger.EventType(et), NodeIDs: []eventlogger.NodeID{"f0", "m", sid}})
						inc.regReturn = stamp()
						inc.ok = err == nil
						mu.Lock()
						if inc.ok {
							// an overwrite ends the previous incarnation of the same (type, id)
							inc.chain = inc.k
							for _, o := range incs {
								if o.ok && o.et == et && o.rmCall == math.MaxInt64 && o.sink != sink && ownedBy(o, g, incs, pid) {
									o.rmCall, o.rmReturn = inc.regCall, inc.regReturn
									inc.chain = o.chain
								}
							}
							inc.owner = g
							incs = append(incs, inc)
							cur = inc
						}
						mu.Unlock()
					case 4, 5: // remove the pipeline of this type
						c0 := stamp()
						var ok bool
						if op == 4 {
							ok = b.RemovePipeline(eventlogger.EventType(et), pid) == nil
						} else {
							ok, _ = b.RemovePipelineAndNodes(ctx, eventlogger.EventType(et), pid)
						}
						c1 := stamp()
						if ok {
							mu.Lock()
							for _, o := range incs {
								if o.ok && o.owner == g && o.et == et && o.rmCall == math.MaxInt64 {
									o.rmCall, o.rmReturn = c0, c1
								}
							}
							mu.Unlock()
						}
					case 6:
						_ = b.SetSuccessThreshold(eventlogger.EventType(et), i%3)
						_, _ = b.SuccessThreshold(eventlogger.EventType(et))
					case 7:
						_ = b.SetSuccessThresholdSinks(eventlogger.EventType(et), i%2)
						_, _ = b.SuccessThresholdSinks(eventlogger.EventType(et))
					case 8:
						_ = b.IsAnyPipelineRegistered(eventlogger.EventType(et))
					case 9:
						_ = b.Reopen(ctx)
					case 10:
						_ = b.RemoveNode(ctx, eventlogger.NodeID(fmt.Sprintf("s%d", kseq.Load())))
					case 11:
						// a value node of an uncomparable dynamic type, re-registered over and over
						_ = b.RegisterNode(eventlogger.NodeID(fmt.Sprintf("spare%d", g)), nodes.Uncomparable{Inner: &nodes.N{W: w, Name: "spare", ID: "spare", T: eventlogger.NodeTypeFilter}, Pad: []int{i}})
					case 12, 13:
						// an ill-formed definition (no formatter before the sink) over the current pipeline id: it must fail
						// and its marker sink must never see an event, not even from a Send that is in flight
						k := int(kseq.Add(1))
						sid := eventlogger.NodeID(fmt.Sprintf("bad%d", k))
						sink := &nodes.N{W: w, Name: string(sid), ID: string(sid), T: eventlogger.NodeTypeSink, OnType: yield}
						_ = b.RegisterNode(sid, sink)
						err := b.RegisterPipeline(eventlogger.Pipeline{PipelineID: pid, EventType: eventlogger.EventType(et), NodeIDs: []eventlogger.NodeID{"f0", sid}})
						mu.Lock()
						if err == nil {
							badAccepted = append(badAccepted, string(sid))
						}
						badSinks = append(badSinks, sink)
						mu.Unlock()
					}
				}
			}(g)
		}
		var sid atomic.Int64
		for s := 0; s < nSend; s++ {
			wg.Add(1)
			go func(s int) {
				defer wg.Done()
				for i := 0; i < nSends; i++ {
					id := int(sid.Add(1))
					et := ets[(s+i)%2]
					if s == 0 {
						et = "A"
					}
					lin := &nodes.Lin{Path: fmt.Sprintf("S%d", id), SendID: id}
					st := stamp()
					_, _ = b.Send(ctx, eventlogger.EventType(et), lin)
					en := stamp()
					mu.Lock()
					sends = append(sends, sendRec{id, et, st, en})
					mu.Unlock()
				}
			}(s)
		}
		done := make(chan struct{})
		go func() { wg.Wait(); close(done) }()
		select {
		case <-done:
		case <-time.After(60 * time.Second):
			t.Fatalf("VIOLATION C04: concurrent broker calls did not finish within 60s (deadlock?)")
		}
		if len(badAccepted) > 0 {
			t.Fatalf("VIOLATION C04: ill-formed pipeline definitions were accepted: %v", badAccepted)
		}
		// quiescent probe: one more Send per type must reach exactly the incarnations that are still registered
		probe := map[string]int{}
		for _, et := range ets {
			id := int(sid.Add(1))
			probe[et] = id
			_, _ = b.Send(ctx, eventlogger.EventType(et), &nodes.Lin{Path: fmt.Sprintf("P%d", id), SendID: id})
		}
		// deliveries per (incarnation sink, send)
		got := map[*nodes.N]map[int]int{}
		for _, c := range w.Calls() {
			if c.Node.T != eventlogger.NodeTypeSink {
				continue
			}
			if got[c.Node] == nil {
				got[c.Node] = map[int]int{}
			}
			got[c.Node][c.SendID]++
		}
		for _, bs := range badSinks {
			if len(got[bs]) > 0 {
				t.Fatalf("VIOLATION C04: the sink of a rejected (ill-formed) pipeline definition received events %v", got[bs])
			}
		}
		for _, inc := range incs {
			want := 0
			if inc.rmCall == math.MaxInt64 {
				want = 1
			}
			if d := got[inc.sink][probe[inc.et]]; d != want {
				t.Fatalf("VIOLATION C04: after all goroutines finished, a Send of type %s was delivered %d time(s) to pipeline incarnation %d, which is registered=%v", inc.et, d, inc.k, want == 1)
			}
		}
		overlap := false
		for _, inc := range incs {
			for _, s := range sends {
				if s.et != inc.et {
					if got[inc.sink][s.id] != 0 {
						t.Fatalf("VIOLATION C04: Send %d of type %s was delivered to a pipeline of type %s", s.id, s.et, inc.et)
					}
					continue
				}
				d := got[inc.sink][s.id]
				switch {
				case d > 1:
					t.Fatalf("VIOLATION C04: Send %d delivered %d times to pipeline incarnation %d", s.id, d, inc.k)
				case inc.regReturn < s.start && s.end < inc.rmCall:
					if d != 1 {
						t.Fatalf("VIOLATION C04: Send %d [%d,%d] ran entirely while pipeline incarnation %d was registered [reg returned %d, removal requested %d] but was delivered %d times", s.id, s.start, s.end, inc.k, inc.regReturn, inc.rmCall, d)
					}
				case s.start > inc.rmReturn || s.end < inc.regCall:
					if d != 0 {
						t.Fatalf("VIOLATION C04: Send %d [%d,%d] was delivered to pipeline incarnation %d which was registered during [%d, %d] only", s.id, s.start, s.end, inc.k, inc.regCall, inc.rmReturn)
					}
				default:
					overlap = true
				}
			}
		}
		// a pipeline id that is overwritten (never removed in between) is one continuously registered
		// pipeline: a Send that ran entirely while the chain existed is processed by exactly one version
		type chainT struct {
			et         string
			start, end int64
			incs       []*incarnation
		}
		chains := map[int]*chainT{}
		for _, inc := range incs {
			c := chains[inc.chain]
			if c == nil {
				c = &chainT{et: inc.et, start: inc.regReturn, end: inc.rmCall}
				chains[inc.chain] = c
			}
			if inc.regReturn < c.start {
				c.start = inc.regReturn
			}
			if inc.rmCall > c.end {
				c.end = inc.rmCall
			}
			c.incs = append(c.incs, inc)
		}
		overwriteOverlap := false
		for _, c := range chains {
			if len(c.incs) < 2 {
				continue
			}
			for _, s := range sends {
				if s.et != c.et || !(c.start < s.start && s.end < c.end) {
					continue
				}
				total := 0
				for _, inc := range c.incs {
					total += got[inc.sink][s.id]
				}
				if total != 1 {
					t.Fatalf("VIOLATION C04: Send %d [%d,%d] ran entirely while pipeline chain %d (overwritten %d times, never removed) was registered [%d,%d] but was processed by %d versions of it", s.id, s.start, s.end, c.incs[0].chain, len(c.incs)-1, c.start, c.end, total)
				}
				overwriteOverlap = true
			}
		}
		desc := fmt.Sprintf("mutators=%d senders=%d ops=%d sends=%d plans=%v", nMut, nSend, nOps, nSends, plans)
		if overwriteOverlap {
			sec.Class("send_during_overwrite_chain")
		}
		var cl []string
		if overlap {
			cl = append(cl, "send_overlapped_register_or_remove")
		}
		cl = append(cl, fmt.Sprintf("mutators=%d", nMut))
		sec.Case(overlap && nMut >= 2, desc, cl...)
	})
}

func yield(*nodes.N) { runtime.Gosched() }

func ownedBy(o *incarnation, g int, _ []*incarnation, _ eventlogger.PipelineID) bool {
	return o.owner == g
}

// ---------------------------------------------------------------------------
// quiescent linearizability (porcupine)

type linState struct {
	nodes map[string]bool // id -> deny
	pipes map[string]linPipe
	thr   map[string]int
}

type linPipe struct {
	ids  string
	deny bool
}

func (s linState) clone() linState {
	c := linState{nodes: map[string]bool{}, pipes: map[string]linPipe{}, thr: map[string]int{}}
	for k, v := range s.nodes {
		c.nodes[k] = v
	}
	for k, v := range s.pipes {
		c.pipes[k] = v
	}
	for k, v := range s.thr {
		c.thr[k] = v
	}
	return c
}

func (s linState) key() string {
	var parts []string
	for k, v := range s.nodes {
		parts = append(parts, fmt.Sprintf("n:%s:%v", k, v))
	}
	for k, v := range s.pipes {
		parts = append(parts, fmt.Sprintf("p:%s:%s:%v", k, v.ids, v.deny))
	}
	for k, v := range s.thr {
		if v != 0 {
			parts = append(parts, fmt.Sprintf("t:%s:%d", k, v))
		}
	}
	sort.Strings(parts)
	return strings.Join(parts, "|")
}

func (s linState) inUse(id string) bool {
	for _, p := range s.pipes {
		for _, x := range strings.Split(p.ids, ",") {
			if x == id {
				return true
			}
		}
	}
	return false
}

func typeOfID(id string) eventlogger.NodeType {
	switch id[0] {
	case 'm':
		return eventlogger.NodeTypeFormatter
	case 's':
		return eventlogger.NodeTypeSink
	}
	return eventlogger.NodeTypeFilter
}

type linOut struct {
	ok    bool
	class string
	v     int
}

func step(st linState, op model.Op, out linOut) (bool, linState) {
	switch op.K {
	case "regnode":
		deny, exists := st.nodes[op.N]
		want := !(op.Pol == 3 || (exists && deny))
		if want != out.ok {
			return false, st
		}
		if want {
			st = st.clone()
			st.nodes[op.N] = op.Pol == 2
		}
	case "regpipe":
		k := op.ET + "\x00" + op.P
		old, exists := st.pipes[k]
		want := op.Pol != 3 && !(exists && old.deny)
		for _, id := range op.IDs {
			if _, ok := st.nodes[id]; !ok {
				want = false
			}
		}
		n := len(op.IDs)
		if n < 2 || typeOfID(op.IDs[n-1]) != eventlogger.NodeTypeSink || typeOfID(op.IDs[n-2]) != eventlogger.NodeTypeFormatter {
			want = false
		}
		if want != out.ok {
			return false, st
		}
		if want {
			st = st.clone()
			st.pipes[k] = linPipe{ids: strings.Join(op.IDs, ","), deny: op.Pol == 2}
		}
	case "rmpipe":
		k := op.ET + "\x00" + op.P
		if _, ok := st.pipes[k]; ok {
			st = st.clone()
			delete(st.pipes, k)
		}
	case "rpan":
		k := op.ET + "\x00" + op.P
		p, exists := st.pipes[k]
		if exists != out.ok {
			return false, st
		}
		if exists {
			st = st.clone()
			delete(st.pipes, k)
			for _, id := range strings.Split(p.ids, ",") {
				if _, reg := st.nodes[id]; reg && !st.inUse(id) {
					delete(st.nodes, id)
				}
			}
		}
	case "rmnode":
		_, reg := st.nodes[op.N]
		want := "removed"
		switch {
		case !reg:
			want = "notfound"
		case st.inUse(op.N):
			want = "inuse"
		}
		if model.Refusal(want) != out.class {
			return false, st
		}
		if want == "removed" {
			st = st.clone()
			delete(st.nodes, op.N)
		}
	case "thr":
		if op.V < 0 {
			return !out.ok, st
		}
		if !out.ok {
			return false, st
		}
		st = st.clone()
		st.thr[op.ET] = op.V
	case "getthr":
		return out.v == st.thr[op.ET], st
	case "isany":
		any := false
		for k := range st.pipes {
			if strings.HasPrefix(k, op.ET+"\x00") {
				any = true
			}
		}
		return any == out.ok, st
	}
	return true, st
}

var linModel = porcupine.Model{
	Init: func() interface{} {
		return linState{nodes: map[string]bool{}, pipes: map[string]linPipe{}, thr: map[string]int{}}
	},
	Step: func(state, input, output interface{}) (bool, interface{}) {
		ok, ns := step(state.(linState), input.(model.Op), output.(linOut))
		return ok, ns
	},
	Equal: func(a, b interface{}) bool { return a.(linState).key() == b.(linState).key() },
	DescribeOperation: func(input, output interface{}) string {
		return fmt.Sprintf("%s -> %+v", input.(model.Op), output.(linOut))
	},
}

// name pools with colliding families (white-space-only names, surrounding white space, case, a separator moved
// between event type and pipeline id)
var (
	linETs  = []string{"A", "B", "A", "B", "A ", " ", "A/x"}
	linPIDs = []string{"p", "q", "p", "q", " ", "\t", "p ", "P", "x/p"}
)

func genLinOp(t *rapid.T) model.Op {
	ids := []string{"f", "m", "s", "s2"}
	switch rapid.SampledFrom([]int{0, 0, 1, 1, 1, 2, 3, 4, 5, 6, 7, 8}).Draw(t, "k") {
	case 8:
		return model.Op{K: "reopen"}
	case 0:
		return model.Op{K: "regnode", N: rapid.SampledFrom(ids).Draw(t, "n"), Pol: rapid.SampledFrom([]int{0, 0, 1, 2, 3}).Draw(t, "pol"), Shape: rapid.SampledFrom([]int{0, 3}).Draw(t, "shape")}
	case 1:
		l := rapid.SampledFrom([][]string{{"m", "s"}, {"f", "m", "s"}, {"m", "s2"}, {"f", "s"}, {"f", "f", "m", "s2"}}).Draw(t, "ids")
		return model.Op{K: "regpipe", ET: rapid.SampledFrom(linETs).Draw(t, "et"), P: rapid.SampledFrom(linPIDs).Draw(t, "p"), IDs: l, Pol: rapid.SampledFrom([]int{0, 0, 0, 1, 2}).Draw(t, "ppol")}
	case 2:
		return model.Op{K: "rmpipe", ET: rapid.SampledFrom(linETs).Draw(t, "et"), P: rapid.SampledFrom(linPIDs).Draw(t, "p")}
	case 3:
		return model.Op{K: "rpan", ET: rapid.SampledFrom(linETs).Draw(t, "et"), P: rapid.SampledFrom(linPIDs).Draw(t, "p")}
	case 4:
		return model.Op{K: "rmnode", N: rapid.SampledFrom(ids).Draw(t, "n")}
	case 5:
		return model.Op{K: "thr", ET: rapid.SampledFrom(linETs).Draw(t, "et"), V: rapid.SampledFrom([]int{-1, 0, 1, 2, 3, 0, 1, 2, math.MaxInt, 1 << 50}).Draw(t, "v")}
	case 6:
		return model.Op{K: "getthr", ET: rapid.SampledFrom(linETs).Draw(t, "et")}
	default:
		return model.Op{K: "isany", ET: rapid.SampledFrom(linETs).Draw(t, "et")}
	}
}

func applyLin(b *eventlogger.Broker, w *nodes.World, op model.Op) linOut {
	ctx := context.Background()
	switch op.K {
	case "regnode":
		n := &nodes.N{W: w, Name: op.N, ID: op.N, T: typeOfID(op.N), OnType: yield}
		var opts []eventlogger.Option
		switch op.Pol {
		case 1:
			opts = append(opts, eventlogger.WithNodeRegistrationPolicy(eventlogger.AllowOverwrite))
		case 2:
			opts = append(opts, eventlogger.WithNodeRegistrationPolicy(eventlogger.DenyOverwrite))
		case 3:
			opts = append(opts, eventlogger.WithNodeRegistrationPolicy("bogus"))
		}
		var obj eventlogger.Node = n
		if op.Shape == 3 {
			obj = nodes.Uncomparable{Inner: n, Pad: []int{1}} // a node value of a type that cannot be a map key
		}
		return linOut{ok: b.RegisterNode(eventlogger.NodeID(op.N), obj, opts...) == nil}
	case "regpipe":
		var ids []eventlogger.NodeID
		for _, id := range op.IDs {
			ids = append(ids, eventlogger.NodeID(id))
		}
		var opts []eventlogger.Option
		switch op.Pol {
		case 1:
			opts = append(opts, eventlogger.WithPipelineRegistrationPolicy(eventlogger.AllowOverwrite))
		case 2:
			opts = append(opts, eventlogger.WithPipelineRegistrationPolicy(eventlogger.DenyOverwrite))
		}
		ok := b.RegisterPipeline(eventlogger.Pipeline{PipelineID: eventlogger.PipelineID(op.P), EventType: eventlogger.EventType(op.ET), NodeIDs: ids}, opts...) == nil
		for i := range ids { // the caller owns this slice and reuses it
			ids[i] = "overwritten-by-the-caller"
		}
		return linOut{ok: ok}
	case "reopen":
		_ = b.Reopen(ctx)
		return linOut{}
	case "rmpipe":
		_ = b.RemovePipeline(eventlogger.EventType(op.ET), eventlogger.PipelineID(op.P))
		return linOut{}
	case "rpan":
		ok, _ := b.RemovePipelineAndNodes(ctx, eventlogger.EventType(op.ET), eventlogger.PipelineID(op.P))
		return linOut{ok: ok}
	case "rmnode":
		return linOut{class: model.RemoveNodeOutcome(b.RemoveNode(ctx, eventlogger.NodeID(op.N)), 0)} // harness nodes never fail their Close here
	case "thr":
		return linOut{ok: b.SetSuccessThreshold(eventlogger.EventType(op.ET), op.V) == nil}
	case "getthr":
		v, _ := b.SuccessThreshold(eventlogger.EventType(op.ET))
		return linOut{v: v}
	case "isany":
		return linOut{ok: b.IsAnyPipelineRegistered(eventlogger.EventType(op.ET))}
	}
	return linOut{}
}

func TestC04Linearizable(t *testing.T) {
	sec := stats.Sec("linearizable", ruleLin)
	rapid.Check(t, func(t *rapid.T) {
		g := rapid.IntRange(2, 4).Draw(t, "goroutines")
		plans := make([][]model.Op, g)
		for i := range plans {
			plans[i] = rapid.SliceOfN(rapid.Custom(genLinOp), 1, 5).Draw(t, fmt.Sprintf("plan%d", i))
		}
		b, _ := eventlogger.NewBroker()
		w := &nodes.World{}
		// sequential prelude so that pipelines can succeed
		var ops []porcupine.Operation
		var clock atomic.Int64
		for _, id := range []string{"f", "m", "s"} {
			op := model.Op{K: "regnode", N: id}
			c := clock.Add(1)
			out := applyLin(b, w, op)
			ops = append(ops, porcupine.Operation{ClientId: 0, Input: op, Call: c, Output: out, Return: clock.Add(1)})
		}
		var mu sync.Mutex
		var wg sync.WaitGroup
		start := make(chan struct{})
		for i := 0; i < g; i++ {
			wg.Add(1)
			go func(i int) {
				defer wg.Done()
				<-start
				for _, op := range plans[i] {
					c := clock.Add(1)
					out := applyLin(b, w, op)
					r := clock.Add(1)
					mu.Lock()
					ops = append(ops, porcupine.Operation{ClientId: i + 1, Input: op, Call: c, Output: out, Return: r})
					mu.Unlock()
				}
			}(i)
		}
		close(start)
		wg.Wait()
		// quiescent probe, part of the same history
		for _, op := range []model.Op{{K: "isany", ET: "A"}, {K: "isany", ET: "B"}, {K: "getthr", ET: "A"}, {K: "getthr", ET: "B"}, {K: "rmnode", N: "f"}, {K: "rmnode", N: "s"}, {K: "rmnode", N: "s2"}, {K: "rmnode", N: "m"}} {
			c := clock.Add(1)
			out := applyLin(b, w, op)
			ops = append(ops, porcupine.Operation{ClientId: 0, Input: op, Call: c, Output: out, Return: clock.Add(1)})
		}
		// whatever thresholds the history left behind (they may be huge): a Send must return, not panic
		for _, et := range linETs {
			func() {
				defer func() {
					if r := recover(); r != nil {
						t.Fatalf("VIOLATION C04: Send(%q) panicked after the history (thresholds are accepted values): %v", et, r)
					}
				}()
				_, _ = b.Send(context.Background(), eventlogger.EventType(et), "probe")
			}()
		}
		res := porcupine.CheckOperationsTimeout(linModel, ops, 10*time.Second)
		var hist []string
		overl := 0
		for i, o := range ops {
			hist = append(hist, fmt.Sprintf("c%d[%d,%d] %s -> %+v", o.ClientId, o.Call, o.Return, o.Input.(model.Op), o.Output.(linOut)))
			for j, p := range ops {
				if i < j && o.ClientId != p.ClientId && o.Call < p.Return && p.Call < o.Return {
					overl++
				}
			}
		}
		switch res {
		case porcupine.Illegal:
			t.Fatalf("VIOLATION C04: the concurrent history is not linearizable with respect to the sequential registry specification:\n%s", strings.Join(hist, "\n"))
		case porcupine.Unknown:
			sec.Class("porcupine_timeout")
			return
		}
		var desc []string
		for i, p := range plans {
			desc = append(desc, fmt.Sprintf("g%d: %s", i, model.Describe(p)))
		}
		sec.Case(overl > 0, strings.Join(desc, " || "), fmt.Sprintf("goroutines=%d", g))
	})
}
