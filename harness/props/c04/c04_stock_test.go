package c04

import (
	"bytes"
	"context"
	"encoding/json"
	"fmt"
	"sync"
	"sync/atomic"
	"testing"

	"github.com/hashicorp/eventlogger"
	"pgregory.net/rapid"
	"verif/harness/internal/stats"
)

const ruleStock = "rapid: 2-4 pipelines [JSONFormatter or JSONFormatterFilter, reading sink] for one event type (all write and read the same format key of the one Event a Send hands to every pipeline), 2-6 sender goroutines x 20-100 Sends, optionally a goroutine re-registering one pipeline and calling Reopen; built with -race: any race report with a library frame is a violation, as is a crash; every sink invocation must find a complete JSON line under the json key; non-trivial = >=3 pipelines; distinct = configuration"

type readingSink struct {
	bad  atomic.Int64
	seen atomic.Int64
}

func (s *readingSink) Process(_ context.Context, e *eventlogger.Event) (*eventlogger.Event, error) {
	b, ok := e.Format(eventlogger.JSONFormat)
	var m map[string]json.RawMessage
	if !ok || len(b) == 0 || b[len(b)-1] != '\n' || bytes.Count(b, []byte("\n")) != 1 || json.Unmarshal(b, &m) != nil {
		s.bad.Add(1)
	}
	s.seen.Add(1)
	return nil, nil
}
func (s *readingSink) Reopen() error              { return nil }
func (s *readingSink) Type() eventlogger.NodeType { return eventlogger.NodeTypeSink }

// TestC04StockFormatters: the pipelines of one Send share one Event; the library's own formatters write it.
func TestC04StockFormatters(t *testing.T) {
	sec := stats.Sec("stock_formatters", ruleStock)
	rapid.Check(t, func(t *rapid.T) {
		np := rapid.IntRange(2, 4).Draw(t, "pipelines")
		senders := rapid.IntRange(2, 6).Draw(t, "senders")
		per := rapid.IntRange(20, 100).Draw(t, "sendsPerSender")
		churn := rapid.Bool().Draw(t, "registryChurn")
		d := fmt.Sprintf("pipelines=%d senders=%d sends=%d churn=%v", np, senders, per, churn)
		b, _ := eventlogger.NewBroker()
		sinks := make([]*readingSink, np)
		for i := 0; i < np; i++ {
			var f eventlogger.Node = &eventlogger.JSONFormatter{}
			if i%2 == 1 {
				f = &eventlogger.JSONFormatterFilter{}
			}
			sinks[i] = &readingSink{}
			_ = b.RegisterNode(eventlogger.NodeID(fmt.Sprintf("m%d", i)), f)
			_ = b.RegisterNode(eventlogger.NodeID(fmt.Sprintf("s%d", i)), sinks[i])
			if err := b.RegisterPipeline(eventlogger.Pipeline{PipelineID: eventlogger.PipelineID(fmt.Sprintf("p%d", i)), EventType: "T", NodeIDs: []eventlogger.NodeID{eventlogger.NodeID(fmt.Sprintf("m%d", i)), eventlogger.NodeID(fmt.Sprintf("s%d", i))}}); err != nil {
				t.Fatalf("harness: %v", err)
			}
		}
		ctx := context.Background()
		var wg sync.WaitGroup
		var stop atomic.Bool
		if churn {
			wg.Add(1)
			go func() {
				defer wg.Done()
				for !stop.Load() {
					_ = b.RegisterPipeline(eventlogger.Pipeline{PipelineID: "p0", EventType: "T", NodeIDs: []eventlogger.NodeID{"m0", "s0"}})
					_ = b.Reopen(ctx)
				}
			}()
		}
		var swg sync.WaitGroup
		for s := 0; s < senders; s++ {
			swg.Add(1)
			go func(s int) {
				defer swg.Done()
				for i := 0; i < per; i++ {
					_, _ = b.Send(ctx, "T", map[string]interface{}{"s": s, "i": i})
				}
			}(s)
		}
		swg.Wait()
		stop.Store(true)
		wg.Wait()
		for i, s := range sinks {
			if s.bad.Load() > 0 {
				t.Fatalf("VIOLATION C04: sink of pipeline p%d found a missing or malformed json line in %d of %d events (several pipelines format the same Event)\ncase: %s", i, s.bad.Load(), s.seen.Load(), d)
			}
			if want := int64(senders * per); s.seen.Load() != want && !churn {
				t.Fatalf("VIOLATION C04: pipeline p%d received %d of %d events\ncase: %s", i, s.seen.Load(), want, d)
			}
		}
		sec.Case(np >= 3, d, fmt.Sprintf("pipelines=%d", np))
	})
}
