// C09 — encrypt.Filter leaks no classified plaintext (secure default, fails closed).
package c09

import (
	"context"
	"fmt"
	"strings"
	"testing"

	"github.com/hashicorp/eventlogger"
	"github.com/hashicorp/eventlogger/filters/encrypt"
	wrapping "github.com/hashicorp/go-kms-wrapping/v2"
	"pgregory.net/rapid"
	"verif/harness/internal/encrun"
	"verif/harness/internal/payload"
	"verif/harness/internal/stats"
)

func TestMain(m *testing.M) { stats.Main(m, "C09") }

const rule = "rapid: payload types AND values from the shape grammar (reflect.StructOf structs with generated field kinds and class tags over {public,sensitive,secret,absent,unknown,mixed case,empty} x {absent,redact,encrypt,hmac-sha256,mixed case,bogus,stray space,extra segment}; pointers, struct slices, interface fields, []interface{}, untagged maps of 7 layouts, Taggable maps; 20 top-level forms incl. unsettable string/[]byte/by-value struct) x override maps x wrapper ok/absent/failing/foreign; oracle = no canary of a non-public leaf is readable anywhere in the forwarded event, protected leaves have the form their tag/defaults/overrides dictate (independent resolver), error => nothing forwarded; non-trivial = Process succeeded with >=2 protected leaves under >=2 different container kinds; distinct = payload+filter descriptor"

func prop(t *rapid.T, sec *stats.Section, maxDepth int) {
	p := payload.Gen(t, maxDepth)
	c := encrun.GenFCfg(t, true)
	desc := p.String() + " " + c.String()
	r, herr := encrun.Run(p, c)
	if herr != nil {
		t.Fatalf("harness self-check failed (not a finding): %v\ncase: %s", herr, desc)
	}
	excluded := false
	for _, f := range r.Findings {
		if f.Prop != "C09" {
			continue
		}
		if stats.Known(f.Sig) {
			excluded = true
			continue
		}
		t.Fatalf("VIOLATION C09: %s [sig %s]\ncase: %s", f.Msg, f.Sig, desc)
	}
	if excluded {
		sec.Excluded()
	}
	n, kinds := encrun.Containers(r.Twin)
	cl := []string{"top=" + p.Top, "wrapper=" + c.Wrapper}
	if r.Err != nil {
		cl = append(cl, "process_error")
	}
	if r.AllNone {
		cl = append(cl, "all_operations_none")
	}
	if len(c.Overrides) > 0 {
		cl = append(cl, "overrides")
	}
	for k := range kinds {
		if k != "" {
			cl = append(cl, "under="+k)
		}
	}
	if excluded {
		cl = append(cl, "known_finding_hit")
	}
	sec.Case(r.Err == nil && !r.AllNone && n >= 2 && len(kinds) >= 2, desc, cl...)
}

func TestC09NoLeak(t *testing.T) {
	sec := stats.Sec("no_leak", rule)
	maxDepth := stats.EnvInt("C09_DEPTH", 3)
	rapid.Check(t, func(t *rapid.T) { prop(t, sec, maxDepth) })
}

// rotation payloads are consumed, never forwarded
type rot struct {
	w          wrapping.Wrapper
	salt, info []byte
	Secret     string `class:"secret"`
}

func (r *rot) Wrapper() wrapping.Wrapper { return r.w }
func (r *rot) HmacSalt() []byte          { return r.salt }
func (r *rot) HmacInfo() []byte          { return r.info }

// rotZero is a rotation payload whose VALUE is the zero value of its type (value receivers; the key material
// comes from elsewhere).
type rotZero struct{}

func (rotZero) Wrapper() wrapping.Wrapper { return encrun.Key.Wrapper() }
func (rotZero) HmacSalt() []byte          { return []byte("zero-salt") }
func (rotZero) HmacInfo() []byte          { return nil }

// rotVal is handed over by value with all fields zero (nothing to rotate: still a rotation payload).
type rotVal struct {
	w          wrapping.Wrapper
	salt, info []byte
}

func (r rotVal) Wrapper() wrapping.Wrapper { return r.w }
func (r rotVal) HmacSalt() []byte          { return r.salt }
func (r rotVal) HmacInfo() []byte          { return r.info }

// rotWithID satisfies RotateWrapper and, through an embedded base type that carries an event id, has an EventId method too.
type baseEvent struct{ ID string }

func (b baseEvent) EventId() string { return b.ID }

type rotWithID struct {
	baseEvent
	rot
}

type ewi struct {
	id   string
	A    string `class:"sensitive"`
	B    []byte `class:"secret"`
	C    string
	M    map[string]interface{}
	salt []byte
}

func (e *ewi) EventId() string  { return e.id }
func (e *ewi) HmacSalt() []byte { return e.salt }
func (e *ewi) HmacInfo() []byte { return nil }

func TestC09Special(t *testing.T) {
	sec := stats.Sec("special_payloads", "rapid: RotateWrapper payloads (any subset of wrapper/salt/info; handed over as a pointer, as the zero value of a value-receiver type, by value with all fields zero, or as a type that has an EventId method as well) must be consumed (nil,nil) unless every operation is none; EventWrapperInfo payloads (ids incl. \"\", no base wrapper) must be protected or rejected; non-trivial = rotation payload or failing event wrapper")
	rapid.Check(t, func(t *rapid.T) {
		c := encrun.GenFCfg(t, true)
		f := c.Filter()
		allNone := c.PCfg().AllNone()
		if rapid.Bool().Draw(t, "rotation") {
			r := &rot{Secret: "ROTATION-PAYLOAD-CANARY"}
			if rapid.Bool().Draw(t, "w") {
				r.w = encrun.Key.Wrapper()
			}
			if rapid.Bool().Draw(t, "s") {
				r.salt = []byte("s2")
			}
			var pl interface{} = r
			shape := rapid.SampledFrom([]string{"pointer", "pointer", "zero-value-type", "by-value-all-zero", "pointer-with-EventId-method"}).Draw(t, "rotationShape")
			switch shape {
			case "zero-value-type":
				pl = rotZero{}
			case "by-value-all-zero":
				pl = rotVal{}
			case "pointer-with-EventId-method":
				pl = &rotWithID{baseEvent{"ev-7"}, *r}
			}
			out, err := f.Process(context.Background(), &eventlogger.Event{Type: "t", Payload: pl})
			if !allNone && (out != nil || err != nil) {
				t.Fatalf("VIOLATION C09: rotation payload (%s) was not consumed (event=%v err=%v)\ncase: %s", shape, out != nil, err, c)
			}
			sec.Case(true, "rotation "+shape+" "+c.String(), "rotation_payload", "rotation_shape="+shape)
			return
		}
		id := rapid.SampledFrom([]string{"ev-1", "ev-1", ""}).Draw(t, "id")
		e := &ewi{id: id, A: "EWI-CANARY-AAAAAAAA", B: []byte("EWI-CANARY-BBBBBBBB"), C: "EWI-CANARY-CCCCCCCC", M: map[string]interface{}{"k": "EWI-CANARY-MMMMMMMM"}}
		out, err := f.Process(context.Background(), &eventlogger.Event{Type: "t", Payload: e})
		if err != nil {
			if out != nil {
				t.Fatalf("VIOLATION C09: event returned together with error %v\ncase: %s id=%q", err, c, id)
			}
			sec.Case(true, fmt.Sprintf("ewi id=%q %s -> error", id, c), "event_wrapper_error")
			return
		}
		if allNone {
			sec.Case(false, "ewi all-none", "all_none")
			return
		}
		txt := fmt.Sprintf("%+v", out.Payload)
		for _, can := range []string{"EWI-CANARY-BBBBBBBB", "EWI-CANARY-CCCCCCCC", "EWI-CANARY-MMMMMMMM"} {
			if strings.Contains(txt, can) && !(can == "EWI-CANARY-BBBBBBBB" && c.Overrides["secret"] == "" && hasKey(c.Overrides, "secret")) {
				t.Fatalf("VIOLATION C09: %s readable in the forwarded event-wrapper payload\ncase: %s id=%q", can, c, id)
			}
		}
		if strings.Contains(txt, "EWI-CANARY-AAAAAAAA") && !(hasKey(c.Overrides, "sensitive") && c.Overrides["sensitive"] == "") {
			t.Fatalf("VIOLATION C09: sensitive field readable in the forwarded event-wrapper payload\ncase: %s id=%q", c, id)
		}
		// (an empty event id that the filter accepts is outside the statement: what matters is that nothing leaked)
		sec.Case(false, fmt.Sprintf("ewi id=%q %s", id, c), "event_wrapper_ok")
	})
}

func hasKey(m map[string]string, k string) bool { _, ok := m[k]; return ok }

var _ = encrypt.RedactedData

// FuzzC09 drives the no-leak property through Go's coverage-guided fuzzer (thorough tier only).
func FuzzC09(f *testing.F) {
	sec := stats.Sec("native_fuzz", rule)
	f.Fuzz(rapid.MakeFuzz(func(t *rapid.T) { prop(t, sec, 4) }))
}

// TestC09FilterReuse: one long-lived Filter whose exported FilterOperationOverrides map is modified IN PLACE
// between events (the documented way to change overrides at run time).
func TestC09FilterReuse(t *testing.T) {
	sec := stats.Sec("filter_reuse", "rapid: one Filter processes 2-6 generated payloads; between events its FilterOperationOverrides map is modified in place (keys set to none/redact/encrypt/hmac-sha256 or deleted); every event is judged against the overrides in force when it was processed, with the no-leak / form / fail-closed oracle; non-trivial = an override was tightened or changed in place between two events with protected leaves; distinct = history descriptor")
	rapid.Check(t, func(t *rapid.T) {
		c := encrun.GenFCfg(t, false)
		if c.Overrides == nil {
			c.Overrides = map[string]string{}
		}
		f := c.Filter()
		if f.FilterOperationOverrides == nil {
			f.FilterOperationOverrides = map[encrypt.DataClassification]encrypt.FilterOperation{}
		}
		n := rapid.IntRange(2, 6).Draw(t, "events")
		var hist []string
		changed := 0
		for i := 0; i < n; i++ {
			if i > 0 {
				for _, cls := range []string{"sensitive", "secret", "public"} {
					switch rapid.IntRange(0, 3).Draw(t, fmt.Sprintf("mut-%s-%d", cls, i)) {
					case 0:
						op := rapid.SampledFrom([]string{"", "redact", "encrypt", "hmac-sha256"}).Draw(t, "newOp")
						if old, ok := c.Overrides[cls]; !ok || old != op {
							changed++
						}
						c.Overrides[cls] = op
						f.FilterOperationOverrides[encrypt.DataClassification(cls)] = encrypt.FilterOperation(op) // in place
					case 1:
						if _, ok := c.Overrides[cls]; ok {
							changed++
						}
						delete(c.Overrides, cls)
						delete(f.FilterOperationOverrides, encrypt.DataClassification(cls))
					}
				}
			}
			p := payload.Gen(t, 2)
			hist = append(hist, c.String()+" "+p.String())
			r, herr := encrun.RunOn(f, p, c)
			if herr != nil {
				t.Fatalf("harness self-check failed (not a finding): %v", herr)
			}
			for _, fd := range r.Findings {
				if fd.Prop != "C09" || stats.Known(fd.Sig) {
					continue
				}
				t.Fatalf("VIOLATION C09: event %d on a reused filter: %s [sig %s]\nhistory: %s", i, fd.Msg, fd.Sig, strings.Join(hist, " ;; "))
			}
		}
		sec.Case(changed > 0, strings.Join(hist, " ;; "), fmt.Sprintf("override_changes>0=%v", changed > 0))
	})
}
