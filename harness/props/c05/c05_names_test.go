package c05

import (
	"fmt"
	"strings"
	"testing"

	"verif/harness/internal/model"
	"verif/harness/internal/stats"
)

const ruleNames = "enumeration: every ordered pair of DISTINCT (event type, pipeline id) keys taken from families of names that collide under careless normalisation (a separator moved between type and id with eight separators, surrounding white space, case, white-space-only, prefixes of one another, 300-byte names differing in the last byte, NFC / NFD) x the policy of the first registration; history: register the first, register the second (a well-formed definition under another id: must succeed), a failing registration under the second id (unknown node: must leave everything as it was), remove the first, register the second again; the registry state (who receives a Send, in-use status of every node, IsAnyPipelineRegistered) is probed after every step; oracle = the acceptance rule of the statement with ids compared as exact strings; non-trivial = first registration with DenyOverwrite; distinct = pair and policy"

// TestC05NameCollisions: "no existing pipeline with that ID and type forbids overwriting" is about exactly that id and type.
func TestC05NameCollisions(t *testing.T) {
	sec := stats.Sec("name_collisions", ruleNames)
	type key struct{ et, p string }
	long := strings.Repeat("0123456789", 30)
	var fam [][]key
	for _, sep := range []string{"/", ".", ":", "-", "#", " ", "|", "\x00"} {
		fam = append(fam, []key{{"A" + sep + "x", "p"}, {"A", "x" + sep + "p"}})
	}
	fam = append(fam,
		[]key{{"A", "p"}, {"A", "p "}, {"A", " p"}, {"A", "P"}, {"A ", "p"}, {"a", "p"}},
		[]key{{"A", " "}, {"A", "\t"}, {" ", "p"}},
		[]key{{"A", "p"}, {"A", "p1"}, {"A", "p10"}, {"Ap", "1"}},
		[]key{{"A", long + "a"}, {"A", long + "b"}, {long + "a", "p"}, {long + "b", "p"}},
		[]key{{"A", "é"}, {"A", "é"}},
	)
	for _, f := range fam {
		for i, k1 := range f {
			for j, k2 := range f {
				if i == j {
					continue
				}
				for _, pol := range []int{0, 2} {
					ops := []model.Op{
						{K: "regnode", N: "c", NT: 2}, {K: "regnode", N: "d", NT: 3}, {K: "regnode", N: "d2", NT: 3},
						{K: "regpipe", ET: k1.et, P: k1.p, IDs: []string{"c", "d"}, Pol: pol},
						{K: "regpipe", ET: k2.et, P: k2.p, IDs: []string{"c", "d2"}},
						{K: "regpipe", ET: k2.et, P: k2.p, IDs: []string{"c", "ghost"}},
						{K: "rmpipe", ET: k1.et, P: k1.p},
						{K: "regpipe", ET: k2.et, P: k2.p, IDs: []string{"c", "d"}},
						{K: "regpipe", ET: k1.et, P: k1.p, IDs: []string{"c", "d2"}, Pol: 2},
						{K: "rpan", ET: k2.et, P: k2.p},
					}
					c := model.NewChecker()
					msg := ""
					for n, op := range ops {
						if m := c.Apply(op); m != "" {
							msg = fmt.Sprintf("step %d: %s", n, m)
							break
						}
						if m := c.CheckState([]string{k1.et, k2.et}, []string{"c", "d", "d2"}, nil); m != "" {
							msg = fmt.Sprintf("after step %d: %s", n, m)
							break
						}
					}
					if msg != "" {
						stats.Violation("TestC05NameCollisions", map[string]interface{}{"ops": ops, "history": model.Describe(ops), "message": msg})
						t.Fatalf("VIOLATION C05: %s\nhistory: %s", msg, model.Describe(ops))
					}
					sec.Case(pol == 2, fmt.Sprintf("(%q,%q) then (%q,%q) pol=%d", k1.et, k1.p, k2.et, k2.p, pol), fmt.Sprintf("firstPolicyDeny=%v", pol == 2))
				}
			}
		}
	}
}
