// C05 — only well-formed pipelines are ever registered; failed calls change nothing.
package c05

import (
	"context"
	"encoding/json"
	"fmt"
	"strings"
	"testing"

	"github.com/hashicorp/eventlogger"
	"pgregory.net/rapid"
	"verif/harness/internal/enum"
	"verif/harness/internal/model"
	"verif/harness/internal/stats"
)

// names that stress length limits: 300 bytes of ASCII, and few characters in many bytes
var (
	longID      = "id-" + strings.Repeat("0123456789", 30)
	multiByteID = strings.Repeat("\u4e8b\u00e9", 50)
)

func TestMain(m *testing.M) { stats.Main(m, "C05") }

const ruleTypes = "all node-type sequences of length 0..5 over {filter, formatter, sink, formatter-filter, unknown type 0, and 258 / 260 / -252 which equal a real type modulo 256} registered as one pipeline on a fresh broker (exhaustive, 37449 sequences); oracle = acceptance predicate of the statement + delivery/IsAnyPipelineRegistered of the resulting state; non-trivial = length >= 3"
const ruleHist = "rapid histories over RegisterNode(id in 4 ids+\"\", 6 type values, policy default/allow/deny/invalid), RegisterPipeline(pid in 3+\"\", type in 2+\"\", 0-5 ids from registered/unregistered/\"\"), RemoveNode, RemovePipelineAndNodes, RemovePipeline; oracle = acceptance predicate, and for every failing call the observable state (delivery per type, IsAnyPipelineRegistered, RemoveNode class of every id on replayed copies) before == after; non-trivial = a failing call after >=1 successful pipeline registration; distinct = history descriptor"

// the four node types, an unknown small value, and values that only differ from a real type in their high bits
var kinds = []int{int(eventlogger.NodeTypeFilter), int(eventlogger.NodeTypeFormatter), int(eventlogger.NodeTypeSink), int(eventlogger.NodeTypeFormatterFilter), 0, 258, 260, -252}

func TestC05TypeSequences(t *testing.T) {
	if rp := stats.ReplayFile("TestC05TypeSequences"); rp != nil {
		b, _ := json.Marshal(rp["types"])
		var ts []int
		_ = json.Unmarshal(b, &ts)
		if msg := runTypes(ts); msg != "" {
			t.Fatalf("VIOLATION C05: %s (types %v)", msg, ts)
		}
		return
	}
	sec := stats.Sec("type_sequences", ruleTypes)
	sec.Set("max_length", 5)
	check := func(ts []int) bool {
		if msg := runTypes(ts); msg != "" {
			cp := append([]int(nil), ts...)
			stats.Violation("TestC05TypeSequences", map[string]interface{}{"types": cp, "message": msg})
			t.Errorf("VIOLATION C05: %s (types %v)", msg, cp)
			return false
		}
		sec.CaseEnum(len(ts) >= 3, func() string {
			var n []string
			for _, k := range ts {
				n = append(n, model.TypeName(k))
			}
			return "[" + strings.Join(n, " ") + "]"
		}, fmt.Sprintf("length=%d", len(ts)))
		return true
	}
	if !check(nil) {
		return
	}
	if !enum.Sequences(kinds, 5, 0, 1, check) {
		sec.NotExhaustive()
	}
}

func runTypes(ts []int) string {
	c := model.NewChecker()
	var ids []string
	for i, k := range ts {
		id := fmt.Sprintf("n%d", i)
		ids = append(ids, id)
		if msg := c.Apply(model.Op{K: "regnode", N: id, NT: k}); msg != "" {
			return msg
		}
	}
	if msg := c.Apply(model.Op{K: "regpipe", ET: "A", P: "p", IDs: ids}); msg != "" {
		return msg
	}
	return c.CheckState([]string{"A"}, ids, nil)
}

type obs struct {
	deliver map[string]string
	any     map[string]bool
	class   map[string]string
}

func observe(hist []model.Op, ets, ids []string) obs {
	o := obs{deliver: map[string]string{}, any: map[string]bool{}, class: map[string]string{}}
	x := model.Replay(hist, nil)
	for _, et := range ets {
		ks, _, _ := x.ProbeSend(et)
		o.deliver[et] = strings.Join(ks, ",")
		o.any[et] = x.B.IsAnyPipelineRegistered(eventlogger.EventType(et))
	}
	for _, id := range ids {
		cp := model.Replay(hist, nil)
		before := cp.ClosesByID()
		err := cp.B.RemoveNode(context.Background(), eventlogger.NodeID(id))
		o.class[id] = model.RemoveNodeOutcome(err, cp.ClosesByID()[id]-before[id])
	}
	return o
}

func diffObs(a, b obs) string {
	for k, v := range a.deliver {
		if b.deliver[k] != v {
			return fmt.Sprintf("pipelines receiving %s events changed: [%s] -> [%s]", k, v, b.deliver[k])
		}
		if a.any[k] != b.any[k] {
			return fmt.Sprintf("IsAnyPipelineRegistered(%s) changed: %v -> %v", k, a.any[k], b.any[k])
		}
	}
	for k, v := range a.class {
		if b.class[k] != v {
			return fmt.Sprintf("registration/in-use status of node %q changed: %s -> %s", k, v, b.class[k])
		}
	}
	return ""
}

func TestC05Histories(t *testing.T) {
	sec := stats.Sec("histories", ruleHist)
	maxOps := stats.EnvInt("C05_MAXOPS", 12)
	ets := []string{"A", "B", "A/q", "A ", longID}
	nodeIDs := []string{"a", "b", "c", "d", " ", "a ", "A", "d ", longID}
	allIDs := []string{"a", "b", "c", "d", "zz", " "}
	typeVals := []int{1, 2, 2, 3, 3, 4, 0, 99, 258, 260, -252, 1<<32 + 2}
	opGen := rapid.Custom(func(t *rapid.T) model.Op {
		switch rapid.SampledFrom([]int{0, 0, 0, 1, 1, 1, 1, 2, 3, 4}).Draw(t, "k") {
		case 0:
			id := rapid.SampledFrom([]string{"a", "b", "c", "d", "a", "b", "c", "d", "", " ", "a ", "A", "d ", longID}).Draw(t, "n")
			nt := rapid.SampledFrom(typeVals).Draw(t, "nt")
			if rapid.IntRange(0, 2).Draw(t, "intended") > 0 {
				switch id {
				case "c":
					nt = rapid.SampledFrom([]int{2, 4}).Draw(t, "fmtT")
				case "d":
					nt = 3
				}
			}
			return model.Op{K: "regnode", N: id, NT: nt, Pol: rapid.SampledFrom([]int{0, 0, 0, 0, 1, 2, 3}).Draw(t, "pol"), Dress: rapid.SampledFrom([]int{0, 0, 0, 1, 2, 3, 4}).Draw(t, "dress"),
				Shape: rapid.SampledFrom([]int{0, 0, 0, 1, 2, 3, 4, 5}).Draw(t, "shape"), Reuse: rapid.IntRange(0, 7).Draw(t, "reuse") == 0,
				CloseErr: rapid.IntRange(0, 5).Draw(t, "closeErr") == 0, CloseKind: rapid.IntRange(0, 2).Draw(t, "closeKind")}
		case 1:
			if rapid.Bool().Draw(t, "likelyValid") {
				ids := rapid.SliceOfN(rapid.SampledFrom([]string{"a", "b", "c", " ", "a ", "A", longID}), 0, 2).Draw(t, "inner")
				ids = append(ids, "c", "d")
				return model.Op{K: "regpipe", ET: rapid.SampledFrom([]string{"A", "B", "A", "B", "A/q", "A ", longID}).Draw(t, "et"), P: rapid.SampledFrom([]string{"p", "q", "r", "p", "q", "r", "q/p", "P", "p ", longID, multiByteID}).Draw(t, "p"), IDs: ids,
					Pol: rapid.SampledFrom([]int{0, 0, 0, 1, 2}).Draw(t, "ppol")}
			}
			ids := rapid.SliceOfN(rapid.SampledFrom([]string{"a", "b", "c", "d", "a", "b", "c", "d", "a", "b", "c", "d", "zz", "", " "}), 0, 5).Draw(t, "ids")
			return model.Op{K: "regpipe", ET: rapid.SampledFrom([]string{"A", "A", "B", "B", "A", "B", ""}).Draw(t, "et"),
				P: rapid.SampledFrom([]string{"p", "q", "r", "p", "q", "r", ""}).Draw(t, "p"), IDs: ids, Pol: rapid.SampledFrom([]int{0, 0, 0, 1, 2, 3}).Draw(t, "ppol"), Dress: rapid.SampledFrom([]int{0, 0, 0, 1, 2, 3, 4}).Draw(t, "pdress")}
		case 2:
			return model.Op{K: "rmnode", N: rapid.SampledFrom([]string{"a", "b", "c", "d", "zz", "", " ", "a ", "A", "d ", longID}).Draw(t, "n"), CtxDone: rapid.IntRange(0, 3).Draw(t, "ctxDone") == 0}
		case 3:
			return model.Op{K: "rpan", ET: rapid.SampledFrom([]string{"A", "B", "C", "", "A/q", "A ", longID}).Draw(t, "et"), P: rapid.SampledFrom([]string{"p", "q", "r", "", "q/p", "P", "p ", longID, multiByteID}).Draw(t, "p"), CtxDone: rapid.IntRange(0, 2).Draw(t, "ctxDone") == 0}
		default:
			return model.Op{K: "rmpipe", ET: rapid.SampledFrom([]string{"A", "B", "A/q", "A "}).Draw(t, "et"), P: rapid.SampledFrom([]string{"p", "q", "r", "q/p", "P", "p "}).Draw(t, "p")}
		}
	})
	rapid.Check(t, func(t *rapid.T) {
		// prelude that makes valid pipelines likely: a formatter and a sink exist
		ops := []model.Op{{K: "regnode", N: "c", NT: 2, CloseErr: rapid.Bool().Draw(t, "cCloseErr"), CloseKind: rapid.IntRange(0, 2).Draw(t, "cCloseKind")}, {K: "regnode", N: "d", NT: 3, Shape: rapid.IntRange(0, 3).Draw(t, "dShape")}}
		ops = append(ops, rapid.SliceOfN(opGen, 1, maxOps).Draw(t, "ops")...)
		ops = model.Maintain(t, ops, func(id string) int {
			switch id {
			case "c":
				return 2
			case "d", "d ":
				return 3
			}
			return 1
		}, "d")
		c := model.NewChecker()
		okPipes, failedAfter := 0, 0
		for i, op := range ops {
			failedBefore := c.Failed
			if msg := c.Apply(op); msg != "" {
				t.Fatalf("VIOLATION C05: step %d: %s\nhistory: %s", i, msg, model.Describe(ops[:i+1]))
			}
			if op.K == "regpipe" && c.Failed == failedBefore {
				okPipes++
			}
			if c.Failed > failedBefore {
				if okPipes > 0 {
					failedAfter++
				}
				// the spec says this call failed: nothing observable may have changed
				before := observe(c.X.Hist[:len(c.X.Hist)-1], ets, allIDs)
				after := observe(c.X.Hist, ets, allIDs)
				if msg := diffObs(before, after); msg != "" {
					t.Fatalf("VIOLATION C05: step %d: failing call %s changed the broker: %s\nhistory: %s", i, op, msg, model.Describe(ops[:i+1]))
				}
			}
			if msg := c.CheckState(ets, nodeIDs, nil); msg != "" {
				t.Fatalf("VIOLATION C05: after step %d: %s\nhistory: %s", i, msg, model.Describe(ops[:i+1]))
			}
		}
		var cl []string
		if failedAfter > 0 {
			cl = append(cl, "failing_call_after_registered_pipeline")
		}
		if okPipes > 0 {
			cl = append(cl, "has_registered_pipeline")
		}
		if c.DenyHits > 0 {
			cl = append(cl, "deny_hit")
		}
		sec.Case(failedAfter > 0, model.Describe(ops), cl...)
	})
}
