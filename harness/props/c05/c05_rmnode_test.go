package c05

import (
	"context"
	"fmt"
	"testing"
	"time"

	"github.com/hashicorp/eventlogger"
	"github.com/hashicorp/eventlogger/sinks/writer"
	"pgregory.net/rapid"
	"verif/harness/internal/simul"
	"verif/harness/internal/stats"
)

const ruleRegRm = "rapid: 100 rounds per case on one Broker; in each round fresh nodes f, m, s are registered, then RegisterPipeline([f m s]) and RemoveNode of one of them (drawn) are released at the same instant (spin barrier; the nodes' Type() yields or not); oracle = the two calls are atomic towards each other: they cannot both succeed (either the node was still registered and is now in use, so its removal is refused, or it was removed first, so the definition names an unregistered node), at least one succeeds, a Send afterwards reaches the sink exactly when the registration succeeded, and the removed node was closed exactly once; non-trivial = both orders were observed in the case; distinct = configuration"

// TestC05RegisterVersusRemoveNode: "every listed node is currently registered" while a listed node is being removed.
func TestC05RegisterVersusRemoveNode(t *testing.T) {
	sec := stats.Sec("register_vs_remove_node", ruleRegRm)
	rapid.Check(t, func(t *rapid.T) {
		victim := rapid.IntRange(0, 2).Draw(t, "removedNode")
		yield := rapid.Bool().Draw(t, "typeYields")
		long := rapid.SampledFrom([]int{1, 1, 50, 400}).Draw(t, "filterListedTimes")
		d := fmt.Sprintf("removedNode=%s typeYields=%v filterListedTimes=%d", []string{"f", "m", "s"}[victim], yield, long)
		b, _ := eventlogger.NewBroker()
		ctx := context.Background()
		regFirst, rmFirst := 0, 0
		for round := 0; round < 100; round++ {
			ns := []*simul.Node{simul.New(fmt.Sprintf("f%d", round), eventlogger.NodeTypeFilter), simul.New(fmt.Sprintf("m%d", round), eventlogger.NodeTypeFormatter), simul.New(fmt.Sprintf("s%d", round), eventlogger.NodeTypeSink)}
			var ids []eventlogger.NodeID
			for i, n := range ns {
				n.Yield = yield
				if err := b.RegisterNode(eventlogger.NodeID(n.Name), n); err != nil {
					t.Fatalf("harness: %v", err)
				}
				reps := 1
				if i == 0 {
					reps = long
				}
				for k := 0; k < reps; k++ {
					ids = append(ids, eventlogger.NodeID(n.Name))
				}
			}
			et := eventlogger.EventType(fmt.Sprintf("T%d", round%3))
			pid := eventlogger.PipelineID(fmt.Sprintf("p%d", round))
			var regErr, rmErr error
			if !simul.Burst(20*time.Second,
				func() {
					regErr = b.RegisterPipeline(eventlogger.Pipeline{PipelineID: pid, EventType: et, NodeIDs: ids})
				},
				func() { rmErr = b.RemoveNode(ctx, eventlogger.NodeID(ns[victim].Name)) }) {
				fmt.Printf("\nINCONCLUSIVE-MARK burst did not return\n")
				t.Skip("inconclusive")
			}
			closed := ns[victim].Closed.Load()
			removed := rmErr == nil || closed > 0
			switch {
			case regErr == nil && removed:
				t.Fatalf("VIOLATION C05: RegisterPipeline(%s) succeeded and the simultaneous RemoveNode(%s) removed the node (err=%v, closed %d time(s)): a registered pipeline now lists a node that is not registered\ncase: %s round=%d", pid, ns[victim].Name, rmErr, closed, d, round)
			case regErr != nil && !removed:
				t.Fatalf("VIOLATION C05: both calls failed: RegisterPipeline: %v; RemoveNode: %v\ncase: %s round=%d", regErr, rmErr, d, round)
			case regErr == nil:
				regFirst++
			default:
				rmFirst++
			}
			if removed && closed != 1 {
				t.Fatalf("VIOLATION C05: the removed node was closed %d times\ncase: %s round=%d", closed, d, round)
			}
			before := ns[2].Processed.Load()
			_, _ = b.Send(ctx, et, "x")
			got := ns[2].Processed.Load() - before
			if want := int64(0); regErr == nil {
				want = 1
				if got != want {
					t.Fatalf("VIOLATION C05: the pipeline was registered but a Send reached its sink %d time(s)\ncase: %s round=%d", got, d, round)
				}
			} else if got != 0 {
				t.Fatalf("VIOLATION C05: RegisterPipeline failed (%v) but a Send reached the sink of that definition %d time(s)\ncase: %s round=%d", regErr, got, d, round)
			}
			_, _ = b.RemovePipelineAndNodes(ctx, et, pid)
			for _, n := range ns {
				_ = b.RemoveNode(ctx, eventlogger.NodeID(n.Name))
			}
		}
		sec.Case(regFirst > 0 && rmFirst > 0, d, fmt.Sprintf("removedNode=%d", victim))
	})
}

const ruleStock = "enumeration: the library's own nodes handed to RegisterNode in the Go value shapes a caller can produce (pointer to a configured value, pointer to the zero value, nil pointer of the node type) x well-formed and ill-formed definitions built from them; oracle = RegisterNode accepts every such value, RegisterPipeline succeeds exactly when the definition is well formed by the rule of the statement (non-empty ids, >= 2 nodes, last a sink, the one before it a formatter or formatter-filter), and neither call panics; non-trivial = a nil-pointer or zero-value node took part; distinct = definition"

// TestC05StockNodeValues: the conditions of the statement are about ids and node types, not about what kind of Go value a node is.
func TestC05StockNodeValues(t *testing.T) {
	sec := stats.Sec("stock_node_values", ruleStock)
	type nv struct {
		name string
		n    eventlogger.Node
		t    eventlogger.NodeType
		odd  bool
	}
	var nilJF *eventlogger.JSONFormatter
	var nilJFF *eventlogger.JSONFormatterFilter
	var nilF *eventlogger.Filter
	var nilFS *eventlogger.FileSink
	var nilWS *writer.Sink
	vals := []nv{
		{"&JSONFormatter{}", &eventlogger.JSONFormatter{}, eventlogger.NodeTypeFormatter, false},
		{"(*JSONFormatter)(nil)", nilJF, eventlogger.NodeTypeFormatter, true},
		{"&JSONFormatterFilter{}", &eventlogger.JSONFormatterFilter{}, eventlogger.NodeTypeFormatterFilter, true},
		{"(*JSONFormatterFilter)(nil)", nilJFF, eventlogger.NodeTypeFormatterFilter, true},
		{"&Filter{pred}", &eventlogger.Filter{Predicate: func(*eventlogger.Event) (bool, error) { return true, nil }}, eventlogger.NodeTypeFilter, false},
		{"&Filter{}", &eventlogger.Filter{}, eventlogger.NodeTypeFilter, true},
		{"(*Filter)(nil)", nilF, eventlogger.NodeTypeFilter, true},
		{"&FileSink{/dev/null}", &eventlogger.FileSink{Path: "/dev/null"}, eventlogger.NodeTypeSink, false},
		{"&FileSink{}", &eventlogger.FileSink{}, eventlogger.NodeTypeSink, true},
		{"(*FileSink)(nil)", nilFS, eventlogger.NodeTypeSink, true},
		{"&writer.Sink{}", &writer.Sink{}, eventlogger.NodeTypeSink, true},
		{"(*writer.Sink)(nil)", nilWS, eventlogger.NodeTypeSink, true},
	}
	wellFormed := func(ts []eventlogger.NodeType) bool {
		if len(ts) < 2 || ts[len(ts)-1] != eventlogger.NodeTypeSink {
			return false
		}
		p := ts[len(ts)-2]
		return p == eventlogger.NodeTypeFormatter || p == eventlogger.NodeTypeFormatterFilter
	}
	b, _ := eventlogger.NewBroker()
	for i, v := range vals {
		var err error
		func() {
			defer func() {
				if r := recover(); r != nil {
					err = fmt.Errorf("panic: %v", r)
				}
			}()
			err = b.RegisterNode(eventlogger.NodeID(fmt.Sprintf("n%d", i)), v.n)
		}()
		if err != nil {
			stats.Violation("TestC05StockNodeValues", map[string]interface{}{"value": v.name, "error": err.Error()})
			t.Fatalf("VIOLATION C05: RegisterNode(%s) failed: %v", v.name, err)
		}
	}
	np := 0
	for i := range vals {
		for j := range vals {
			for k := -1; k < len(vals); k += 3 { // optional first node
				var ids []eventlogger.NodeID
				var ts []eventlogger.NodeType
				names := ""
				odd := vals[i].odd || vals[j].odd
				if k >= 0 {
					ids, ts, names, odd = append(ids, eventlogger.NodeID(fmt.Sprintf("n%d", k))), append(ts, vals[k].t), vals[k].name+" ", odd || vals[k].odd
				}
				ids = append(ids, eventlogger.NodeID(fmt.Sprintf("n%d", i)), eventlogger.NodeID(fmt.Sprintf("n%d", j)))
				ts = append(ts, vals[i].t, vals[j].t)
				names += vals[i].name + " " + vals[j].name
				np++
				var err error
				func() {
					defer func() {
						if r := recover(); r != nil {
							err = fmt.Errorf("panic: %v", r)
						}
					}()
					err = b.RegisterPipeline(eventlogger.Pipeline{PipelineID: eventlogger.PipelineID(fmt.Sprintf("p%d", np)), EventType: "T", NodeIDs: ids})
				}()
				want := wellFormed(ts)
				if (err == nil) != want || (err != nil && len(err.Error()) > 6 && err.Error()[:6] == "panic:") {
					stats.Violation("TestC05StockNodeValues", map[string]interface{}{"definition": names, "error": fmt.Sprint(err), "wellFormed": want})
					t.Fatalf("VIOLATION C05: RegisterPipeline([%s]) returned %v, the definition is well formed: %v", names, err, want)
				}
				sec.Case(odd, "["+names+"]", fmt.Sprintf("wellFormed=%v", want))
			}
		}
	}
}
