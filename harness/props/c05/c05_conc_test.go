package c05

import (
	"context"
	"fmt"
	"strings"
	"sync"
	"sync/atomic"
	"testing"
	"time"

	"github.com/hashicorp/eventlogger"
	"pgregory.net/rapid"
	"verif/harness/internal/simul"
	"verif/harness/internal/stats"
)

const ruleConcFail = "rapid: one well-formed pipeline [f m s] (s registered with DenyOverwrite); 1-3 goroutines Send 200-2000 events each while another goroutine keeps issuing calls that must fail, drawn from: RegisterPipeline of an ill-formed node list containing a marker sink (no formatter before the sink, sink not last, single node, unregistered node) under the existing pipeline ID or a new one, RegisterNode over the DenyOverwrite id, RemoveNode of an in-use node, RemovePipelineAndNodes of an unknown pipeline; oracle = every such call reports failure, every Send succeeds and reaches s exactly once, no marker sink ever receives an event, nothing is closed; non-trivial = >=2 senders and an ill-formed registration under the existing pipeline ID; distinct = configuration"

func TestC05ConcurrentFailing(t *testing.T) {
	sec := stats.Sec("concurrent_failing_calls", ruleConcFail)
	kinds := []string{"illformed-existing-id:f,BAD", "illformed-new-id:f,BAD", "illformed-new-id:m,BAD,f", "illformed-existing-id:BAD", "illformed-new-id:m,BAD,m", "illformed-existing-id:m,BAD,ghost", "regnode-denied", "rmnode-in-use", "rpan-unknown"}
	rapid.Check(t, func(t *rapid.T) {
		senders := rapid.IntRange(1, 3).Draw(t, "senders")
		per := rapid.SampledFrom([]int{200, 2000}).Draw(t, "sendsPerSender")
		calls := rapid.SliceOfNDistinct(rapid.SampledFrom(kinds), 1, 5, func(s string) string { return s }).Draw(t, "failingCalls")
		d := fmt.Sprintf("senders=%d sends=%d failing=[%s]", senders, per, strings.Join(calls, " "))
		b, _ := eventlogger.NewBroker()
		ctx := context.Background()
		f, m, s := simul.New("f", eventlogger.NodeTypeFilter), simul.New("m", eventlogger.NodeTypeFormatter), simul.New("s", eventlogger.NodeTypeSink)
		bad := simul.New("BAD", eventlogger.NodeTypeSink)
		intruder := simul.New("intruder", eventlogger.NodeTypeSink)
		_ = b.RegisterNode("f", f)
		_ = b.RegisterNode("m", m)
		_ = b.RegisterNode("s", s, eventlogger.WithNodeRegistrationPolicy(eventlogger.DenyOverwrite))
		_ = b.RegisterNode("BAD", bad)
		if err := b.RegisterPipeline(eventlogger.Pipeline{PipelineID: "P0", EventType: "T", NodeIDs: []eventlogger.NodeID{"f", "m", "s"}}); err != nil {
			t.Fatalf("harness: %v", err)
		}
		var stop atomic.Bool
		var wg sync.WaitGroup
		var bad1 atomic.Value
		var nfail atomic.Int64
		wg.Add(1)
		go func() {
			defer wg.Done()
			for k := 0; !stop.Load(); k++ {
				c := calls[k%len(calls)]
				var err error
				switch {
				case strings.HasPrefix(c, "illformed"):
					pid := eventlogger.PipelineID("P0")
					if strings.Contains(c, "new-id") {
						pid = "PX"
					}
					var ids []eventlogger.NodeID
					for _, x := range strings.Split(c[strings.Index(c, ":")+1:], ",") {
						ids = append(ids, eventlogger.NodeID(x))
					}
					err = b.RegisterPipeline(eventlogger.Pipeline{PipelineID: pid, EventType: "T", NodeIDs: ids})
				case c == "regnode-denied":
					err = b.RegisterNode("s", intruder)
				case c == "rmnode-in-use":
					err = b.RemoveNode(ctx, "s")
				case c == "rpan-unknown":
					ok, e := b.RemovePipelineAndNodes(ctx, "T", "nope")
					err = e
					if ok {
						err = nil
					} else if e == nil {
						err = fmt.Errorf("reported false")
					}
				}
				nfail.Add(1)
				if err == nil && bad1.Load() == nil {
					bad1.Store(c)
				}
			}
		}()
		var sendErr atomic.Value
		var swg sync.WaitGroup
		for i := 0; i < senders; i++ {
			swg.Add(1)
			go func() {
				defer swg.Done()
				for k := 0; k < per; k++ {
					if _, err := b.Send(ctx, "T", "x"); err != nil && sendErr.Load() == nil {
						sendErr.Store(err.Error())
					}
				}
			}()
		}
		swg.Wait()
		stop.Store(true)
		wg.Wait()
		if c := bad1.Load(); c != nil {
			t.Fatalf("VIOLATION C05: the call %q succeeded although it must fail\ncase: %s", c, d)
		}
		if e := sendErr.Load(); e != nil {
			t.Fatalf("VIOLATION C05: a Send failed (%v) while only failing calls ran beside it: a failed call changed the set of pipelines that receive events\ncase: %s", e, d)
		}
		if n := bad.Processed.Load() + intruder.Processed.Load(); n != 0 {
			t.Fatalf("VIOLATION C05: %d events reached a sink that only ever appeared in failed registrations\ncase: %s", n, d)
		}
		if got, want := s.Processed.Load(), int64(senders*per); got != want {
			t.Fatalf("VIOLATION C05: the registered pipeline's sink received %d of %d events while failing calls ran beside the senders\ncase: %s", got, want, d)
		}
		if n := f.Closed.Load() + m.Closed.Load() + s.Closed.Load() + bad.Closed.Load(); n != 0 {
			t.Fatalf("VIOLATION C05: failing calls closed %d node(s)\ncase: %s", n, d)
		}
		if !b.IsAnyPipelineRegistered("T") {
			t.Fatalf("VIOLATION C05: IsAnyPipelineRegistered is false after failing calls only\ncase: %s", d)
		}
		onExisting := false
		for _, c := range calls {
			if strings.HasPrefix(c, "illformed-existing-id") {
				onExisting = true
			}
		}
		cl := []string{fmt.Sprintf("senders=%d", senders)}
		if nfail.Load() > 50 {
			cl = append(cl, "many_failing_calls_during_sends")
		}
		sec.Case(senders >= 2 && onExisting, d, cl...)
	})
}

const ruleConcReg = "rapid: 2-4 RegisterPipeline calls for one pipeline id and event type released at the same instant, each with its own marker sink, all with DenyOverwrite (nodes whose Type() yields), optionally mixed with ill-formed definitions under the same id; 20-60 rounds per case on fresh brokers; oracle (holds for every sequential order) = exactly one of the well-formed DenyOverwrite calls succeeds, no ill-formed call succeeds, and a Send reaches exactly the winner's sink; non-trivial = >=3 registrars; distinct = configuration"

// TestC05ConcurrentRegistrations: "succeeds exactly when ... no existing pipeline with that ID and type forbids
// overwriting" also when the registrations arrive together.
func TestC05ConcurrentRegistrations(t *testing.T) {
	sec := stats.Sec("concurrent_registrations", ruleConcReg)
	rapid.Check(t, func(t *rapid.T) {
		g := rapid.IntRange(2, 4).Draw(t, "registrars")
		ill := rapid.IntRange(0, 1).Draw(t, "illFormedRegistrars")
		rounds := rapid.SampledFrom([]int{20, 60}).Draw(t, "rounds")
		d := fmt.Sprintf("registrars=%d illFormed=%d rounds=%d", g, ill, rounds)
		ctx := context.Background()
		for r := 0; r < rounds; r++ {
			b, _ := eventlogger.NewBroker()
			_ = b.RegisterNode("f", simul.New("f", eventlogger.NodeTypeFilter))
			_ = b.RegisterNode("m", simul.New("m", eventlogger.NodeTypeFormatter))
			sinks := make([]*simul.Node, g+ill)
			errs := make([]error, g+ill)
			fs := make([]func(), g+ill)
			for i := range sinks {
				i := i
				sinks[i] = simul.New(fmt.Sprintf("s%d", i), eventlogger.NodeTypeSink)
				sid := eventlogger.NodeID(sinks[i].Name)
				_ = b.RegisterNode(sid, sinks[i])
				ids := []eventlogger.NodeID{"f", "m", sid}
				if i >= g {
					ids = []eventlogger.NodeID{"f", sid} // no formatter before the sink
				}
				fs[i] = func() {
					errs[i] = b.RegisterPipeline(eventlogger.Pipeline{PipelineID: "P", EventType: "T", NodeIDs: ids}, eventlogger.WithPipelineRegistrationPolicy(eventlogger.DenyOverwrite))
				}
			}
			if !simul.Burst(20*time.Second, fs...) {
				fmt.Printf("\nINCONCLUSIVE-MARK watchdog: simultaneous registrations did not return\n")
				t.Skip("inconclusive")
			}
			winner, nwin := -1, 0
			for i := 0; i < g; i++ {
				if errs[i] == nil {
					winner, nwin = i, nwin+1
				}
			}
			for i := g; i < g+ill; i++ {
				if errs[i] == nil {
					t.Fatalf("VIOLATION C05: an ill-formed definition was accepted (round %d)\ncase: %s", r, d)
				}
			}
			if nwin != 1 {
				t.Fatalf("VIOLATION C05: %d of %d simultaneous DenyOverwrite registrations of one pipeline id succeeded (round %d): whichever came first forbids the others\ncase: %s", nwin, g, r, d)
			}
			if _, err := b.Send(ctx, "T", "x"); err != nil {
				t.Fatalf("VIOLATION C05: Send failed after the registrations: %v\ncase: %s", err, d)
			}
			for i, s := range sinks {
				want := int64(0)
				if i == winner {
					want = 1
				}
				if s.Processed.Load() != want {
					t.Fatalf("VIOLATION C05: registrar %d's sink received %d events, registrar %d holds the only successful registration (round %d)\ncase: %s", i, s.Processed.Load(), winner, r, d)
				}
			}
		}
		sec.Case(g >= 3, d, fmt.Sprintf("registrars=%d", g))
	})
}
