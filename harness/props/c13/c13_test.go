// C13 — sinks deliver exactly the bytes of their configured format, or report an error.
package c13

import (
	"bytes"
	"context"
	"errors"
	"fmt"
	"os"
	"path/filepath"
	"sort"
	"strings"
	"sync"
	"sync/atomic"
	"testing"
	"time"

	"github.com/hashicorp/eventlogger"
	"github.com/hashicorp/eventlogger/sinks/channel"
	"github.com/hashicorp/eventlogger/sinks/writer"
	"pgregory.net/rapid"
	"verif/harness/internal/stats"
)

func TestMain(m *testing.M) { stats.Main(m, "C13") }

const ruleW = "rapid: format tables of 0-3 entries from {json,text,custom,\"\"} with generated values (empty allowed) x configured Format {unset,json,text,custom,missing} x harness writer {ok, fails, short write with nil error, short write with error} x 1-16 concurrent Process calls, for writer.Sink and FileSink (temp dir, /dev/null, /dev/stdout, /dev/stderr, un-creatable directory); oracle = byte stream received by the harness writer / file contents: success => exactly the configured format's bytes, once and contiguous (in however many Write calls), never overlapping another Process call's write; missing format or failing/short writer => error; non-trivial = >=2 formats in the table with a non-default sink format, or >=4 concurrent writers; distinct = case descriptor"
const ruleC = "rapid: ChannelSink with capacity 0/1, pre-filled or not, a drainer receiving after never/0/5/60ms, timeout 1-40ms or 10s, context cancelled before/after 1-40ms/never or carrying its own deadline, or a detached context (parent deadline, never done), Process under a watchdog, plus constructor arguments; oracle = nil <=> the identical *Event pointer was received exactly once, error => never received, error not before min(timeout, cancel) and not later than it + 2s; non-trivial = timeout and context deadline both finite and different, or delivery racing a deadline; distinct = case descriptor"

// format names are exact strings: the pool holds names that are equal only after trimming or case folding
var formatNames = []string{eventlogger.JSONFormat, "text", "custom", "", eventlogger.JSONFormat, "text", "JSON", "text ", " ", "\tcustom", "Text"}

type hw struct {
	mode    int // 0 ok, 1 fails, 2 short nil, 3 short err
	mu      sync.Mutex
	writes  [][]byte
	inside  atomic.Int32
	overlap atomic.Bool
	slow    bool
}

func (w *hw) Write(p []byte) (int, error) {
	if w.inside.Add(1) > 1 {
		w.overlap.Store(true)
	}
	defer w.inside.Add(-1)
	if w.slow {
		time.Sleep(20 * time.Microsecond)
	}
	switch w.mode {
	case 1:
		return 0, errors.New("harness writer failed")
	case 2:
		n := len(p) / 2
		w.mu.Lock()
		w.writes = append(w.writes, append([]byte(nil), p[:n]...))
		w.mu.Unlock()
		return n, nil
	case 3:
		n := len(p) / 2
		w.mu.Lock()
		w.writes = append(w.writes, append([]byte(nil), p[:n]...))
		w.mu.Unlock()
		return n, errors.New("harness writer failed after a short write")
	}
	w.mu.Lock()
	w.writes = append(w.writes, append([]byte(nil), p...))
	w.mu.Unlock()
	return len(p), nil
}

type tableGen struct {
	table map[string][]byte
	desc  string
}

func genTable(t *rapid.T, tag string) tableGen {
	n := rapid.IntRange(0, 3).Draw(t, "nformats"+tag)
	tb := map[string][]byte{}
	var ds []string
	for i := 0; i < n; i++ {
		name := rapid.SampledFrom(formatNames).Draw(t, fmt.Sprintf("fname%s%d", tag, i))
		l := rapid.SampledFrom([]int{0, 1, 3, 17, 100}).Draw(t, fmt.Sprintf("flen%s%d", tag, i))
		v := rapid.SliceOfN(rapid.Byte(), l, l).Draw(t, fmt.Sprintf("fval%s%d", tag, i))
		tb[name] = v
		ds = append(ds, fmt.Sprintf("%q:%dB", name, l))
	}
	sort.Strings(ds)
	return tableGen{tb, "{" + strings.Join(ds, ",") + "}"}
}

func effFormat(cfg string) string {
	if cfg == "" {
		return eventlogger.JSONFormat
	}
	return cfg
}

func TestC13WriterSink(t *testing.T) {
	sec := stats.Sec("writer_sink", ruleW)
	rapid.Check(t, func(t *rapid.T) {
		cfgFmt := rapid.SampledFrom([]string{"", "", eventlogger.JSONFormat, "text", "custom", "missing", "JSON", "Text", "CUSTOM", " ", "text ", "\tcustom", " json", "json\n"}).Draw(t, "sinkFormat")
		mode := rapid.SampledFrom([]int{0, 0, 0, 0, 1, 2, 3}).Draw(t, "writerMode")
		nconc := rapid.SampledFrom([]int{1, 1, 2, 4, 8, 16}).Draw(t, "concurrency")
		w := &hw{mode: mode, slow: nconc > 1}
		sink := &writer.Sink{Format: cfgFmt, Writer: w}
		type call struct {
			tb  tableGen
			err error
			out *eventlogger.Event
		}
		calls := make([]*call, nconc)
		for i := range calls {
			calls[i] = &call{tb: genTable(t, fmt.Sprint(i))}
			if nconc > 1 {
				// make values distinguishable
				for k, v := range calls[i].tb.table {
					calls[i].tb.table[k] = append([]byte(fmt.Sprintf("<%d>", i)), v...)
				}
			}
		}
		// how the bytes got into the event: as a literal table, through FormattedAs, through FormattedAs after an
		// earlier value for the same format (the last writer wins, also when it writes nil), or into an event derived
		// from another event's Format() result which is then re-formatted
		via := rapid.SampledFrom([]string{"literal", "literal", "FormattedAs", "overwrite", "derived", "map-edit"}).Draw(t, "via")
		mkEvent := func(tb map[string][]byte, i int) *eventlogger.Event {
			switch via {
			case "FormattedAs", "overwrite":
				ev := &eventlogger.Event{Type: "t"}
				for k, v := range tb {
					if via == "overwrite" {
						ev.FormattedAs(k, []byte(fmt.Sprintf("<%d>SUPERSEDED-VALUE-OF-%s-------------------------------------------------------------------------------------------------", i, k)))
					}
					if len(v) == 0 && via == "overwrite" {
						ev.FormattedAs(k, nil) // the last writer stores "no bytes"
						continue
					}
					ev.FormattedAs(k, v)
				}
				return ev
			case "map-edit":
				// a node stored a value through FormattedAs, a later node rewrites the exported table entry directly
				ev := &eventlogger.Event{Type: "t"}
				for k, v := range tb {
					ev.FormattedAs(k, []byte(fmt.Sprintf("<%d>VALUE-BEFORE-THE-DIRECT-EDIT-OF-%s", i, k)))
					ev.Formatted[k] = v
				}
				return ev
			case "derived":
				src := &eventlogger.Event{Type: "t"}
				derived := &eventlogger.Event{Type: "t", Formatted: map[string][]byte{}}
				for k, v := range tb {
					src.FormattedAs(k, v)
					got, _ := src.Format(k)
					derived.Formatted[k] = got
				}
				for k, v := range tb { // the source event is formatted again (same lengths): the derived event keeps its bytes
					src.FormattedAs(k, bytes.Repeat([]byte("#"), len(v)))
				}
				return derived
			}
			return &eventlogger.Event{Type: "t", Formatted: tb}
		}
		var wg sync.WaitGroup
		for i, c := range calls {
			// the table the oracle uses is a private copy of what goes into the event
			private := map[string][]byte{}
			for k, v := range c.tb.table {
				if v == nil {
					private[k] = nil
				} else {
					private[k] = append([]byte{}, v...)
				}
			}
			ev := mkEvent(c.tb.table, i)
			c.tb.table = private
			wg.Add(1)
			go func(c *call) {
				defer wg.Done()
				c.out, c.err = sink.Process(context.Background(), ev)
			}(c)
		}
		wg.Wait()
		desc := fmt.Sprintf("writer.Sink{Format:%q} writerMode=%d concurrency=%d via=%s tables=", cfgFmt, mode, nconc, via)
		for _, c := range calls {
			desc += c.tb.desc
		}
		if w.overlap.Load() {
			t.Fatalf("VIOLATION C13: two Process calls wrote to the underlying writer at the same time\ncase: %s", desc)
		}
		var wantWrites []string
		multi := false
		for _, c := range calls {
			val, has := c.tb.table[effFormat(cfgFmt)]
			if len(c.tb.table) >= 2 && cfgFmt != "" && cfgFmt != eventlogger.JSONFormat {
				multi = true
			}
			if c.out != nil {
				t.Fatalf("VIOLATION C13: a sink returned an event\ncase: %s", desc)
			}
			switch {
			case !has:
				if c.err == nil {
					t.Fatalf("VIOLATION C13: success although the event carries no bytes for format %q\ncase: %s", effFormat(cfgFmt), desc)
				}
			case mode == 0:
				if c.err != nil {
					t.Fatalf("VIOLATION C13: error %v although the writer accepted the bytes\ncase: %s", c.err, desc)
				}
				if len(val) > 0 {
					wantWrites = append(wantWrites, string(val))
				}
			default:
				if c.err == nil && len(val) > 0 {
					t.Fatalf("VIOLATION C13: success although the underlying write failed or was short (mode %d)\ncase: %s", mode, desc)
				}
			}
		}
		if mode == 0 {
			// the byte stream the writer received (Write calls in arrival order; how many calls an event takes is
			// the sink's business) must be the successful values, each exactly once and contiguous, in some order
			var stream []byte
			for _, b := range w.writes {
				stream = append(stream, b...)
			}
			rest := stream
			used := make([]bool, len(wantWrites))
			for len(rest) > 0 {
				found := false
				for i, v := range wantWrites {
					if !used[i] && bytes.HasPrefix(rest, []byte(v)) {
						used[i], found = true, true
						rest = rest[len(v):]
						break
					}
				}
				if !found {
					t.Fatalf("VIOLATION C13: the writer received %q (in %d Write calls), which is not the successful values %q each once and contiguous\ncase: %s", stream, len(w.writes), wantWrites, desc)
				}
			}
			for i, v := range wantWrites {
				if !used[i] {
					t.Fatalf("VIOLATION C13: value %q was acknowledged but the writer received %q\ncase: %s", v, stream, desc)
				}
			}
		}
		// nil writer / nil event
		if _, err := (&writer.Sink{}).Process(context.Background(), &eventlogger.Event{Formatted: map[string][]byte{"json": []byte("x")}}); err == nil {
			t.Fatalf("VIOLATION C13: writer.Sink without a writer reported success")
		}
		var cl []string
		cl = append(cl, fmt.Sprintf("writer_mode=%d", mode), fmt.Sprintf("concurrency=%d", nconc))
		if multi {
			cl = append(cl, "multi_format_nondefault")
		}
		sec.Case(multi || nconc >= 4, desc, cl...)
	})
}

func TestC13FileSink(t *testing.T) {
	sec := stats.Sec("file_sink", ruleW)
	root, err := os.MkdirTemp("", "verif-c13-")
	if err != nil {
		t.Skip(err.Error())
	}
	defer os.RemoveAll(root)
	blocker := filepath.Join(root, "regular-file")
	_ = os.WriteFile(blocker, []byte("x"), 0o600)
	caseNo := 0
	rapid.Check(t, func(t *rapid.T) {
		caseNo++
		cfgFmt := rapid.SampledFrom([]string{"", "", eventlogger.JSONFormat, "text", "custom", "missing", "JSON", "Text", "CUSTOM", " ", "text ", "\tcustom", " json", "json\n"}).Draw(t, "sinkFormat")
		kind := rapid.SampledFrom([]string{"dir", "dir", "dir", "devnull", "stdout", "stderr", "uncreatable", "devfull", "stdout-closed"}).Draw(t, "path")
		if _, err := os.Stat("/dev/full"); err != nil && kind == "devfull" {
			kind = "uncreatable"
		}
		nconc := rapid.SampledFrom([]int{1, 1, 2, 4, 8, 16}).Draw(t, "concurrency")
		if kind != "dir" {
			nconc = 1
		}
		dir := filepath.Join(root, fmt.Sprintf("c%d", caseNo))
		sink := &eventlogger.FileSink{Format: cfgFmt, FileName: "out.log"}
		var capture *os.File
		var saved *os.File
		switch kind {
		case "dir":
			sink.Path = dir
		case "devnull":
			sink.Path = "/dev/null"
		case "stdout", "stderr":
			sink.Path = "/dev/" + kind
			capture, _ = os.Create(filepath.Join(root, fmt.Sprintf("cap%d", caseNo)))
			if kind == "stdout" {
				saved, os.Stdout = os.Stdout, capture
			} else {
				saved, os.Stderr = os.Stderr, capture
			}
		case "uncreatable":
			sink.Path = filepath.Join(blocker, "sub")
		case "devfull":
			// the file opens fine and every write(2) fails with ENOSPC, also the sink's single retry
			sink.Path, sink.FileName = "/dev", "full"
		case "stdout-closed":
			sink.Path = "/dev/stdout"
			capture, _ = os.Create(filepath.Join(root, fmt.Sprintf("closed%d", caseNo)))
			capture.Close()
			saved, os.Stdout = os.Stdout, capture
		}
		type call struct {
			tb  tableGen
			err error
			out *eventlogger.Event
		}
		calls := make([]*call, nconc)
		for i := range calls {
			calls[i] = &call{tb: genTable(t, fmt.Sprint(i))}
			for k, v := range calls[i].tb.table {
				calls[i].tb.table[k] = append([]byte(fmt.Sprintf("<%d>", i)), v...)
			}
		}
		var wg sync.WaitGroup
		for _, c := range calls {
			wg.Add(1)
			go func(c *call) {
				defer wg.Done()
				ev := &eventlogger.Event{Type: "t", Formatted: c.tb.table}
				c.out, c.err = sink.Process(context.Background(), ev)
			}(c)
		}
		wg.Wait()
		if saved != nil {
			if kind == "stdout" || kind == "stdout-closed" {
				os.Stdout = saved
			} else {
				os.Stderr = saved
			}
			capture.Close()
		}
		desc := fmt.Sprintf("FileSink{Format:%q path=%s} concurrency=%d tables=", cfgFmt, kind, nconc)
		for _, c := range calls {
			desc += c.tb.desc
		}
		var content []byte
		switch kind {
		case "dir":
			content, _ = os.ReadFile(filepath.Join(dir, "out.log"))
		case "stdout", "stderr":
			content, _ = os.ReadFile(capture.Name())
		}
		var want [][]byte
		multi := false
		for _, c := range calls {
			val, has := c.tb.table[effFormat(cfgFmt)]
			if len(c.tb.table) >= 2 && cfgFmt != "" && cfgFmt != eventlogger.JSONFormat {
				multi = true
			}
			if c.out != nil {
				t.Fatalf("VIOLATION C13: FileSink returned an event\ncase: %s", desc)
			}
			switch {
			case kind == "devnull":
				if c.err != nil {
					t.Fatalf("VIOLATION C13: /dev/null sink reported %v\ncase: %s", c.err, desc)
				}
			case kind == "uncreatable":
				if c.err == nil {
					t.Fatalf("VIOLATION C13: success although the log directory cannot be created\ncase: %s", desc)
				}
			case kind == "devfull" || kind == "stdout-closed":
				if c.err == nil && has && len(val) > 0 {
					t.Fatalf("VIOLATION C13: success although every write to the underlying file fails (%s)\ncase: %s", kind, desc)
				}
			case !has:
				if c.err == nil {
					t.Fatalf("VIOLATION C13: success although the event carries no bytes for format %q\ncase: %s", effFormat(cfgFmt), desc)
				}
			default:
				if c.err != nil {
					t.Fatalf("VIOLATION C13: error %v on a writable path\ncase: %s", c.err, desc)
				}
				want = append(want, val)
			}
		}
		if kind == "dir" || kind == "stdout" || kind == "stderr" {
			// the content must be the successful values, each once and contiguous, in some order
			rest := content
			used := make([]bool, len(want))
			for len(rest) > 0 {
				found := false
				for i, v := range want {
					if !used[i] && len(v) > 0 && bytes.HasPrefix(rest, v) {
						used[i], found = true, true
						rest = rest[len(v):]
						break
					}
				}
				if !found {
					t.Fatalf("VIOLATION C13: output %q is not a concatenation of the successfully written values %q\ncase: %s", content, want, desc)
				}
			}
			for i, v := range want {
				if !used[i] && len(v) > 0 {
					t.Fatalf("VIOLATION C13: value %q was acknowledged but is not in the output %q\ncase: %s", v, content, desc)
				}
			}
		}
		cl := []string{"path=" + kind, fmt.Sprintf("concurrency=%d", nconc)}
		if multi {
			cl = append(cl, "multi_format_nondefault")
		}
		sec.Case(multi || nconc >= 4, desc, cl...)
	})
}

const ruleF = "rapid: histories of 2-12 steps on one live FileSink {write unique value, break: the log path becomes a symlink to /dev/full (the old file is kept aside), repair: the symlink is removed, Reopen, external rename of the log file}; oracle after every write, counting complete copies of the value over all regular files of the directory: success <=> exactly one copy, error => no copy; at the end every acknowledged value exactly once; non-trivial = a write that first failed on a stale handle and then met a repaired path, or a write through a handle whose file was renamed; distinct = step-kind sequence"

// TestC13FileSinkFaults: the environment under a live FileSink changes between Process calls.
func TestC13FileSinkFaults(t *testing.T) {
	sec := stats.Sec("file_sink_faults", ruleF)
	if _, err := os.Stat("/dev/full"); err != nil {
		t.Skip("/dev/full not available")
	}
	root, err := os.MkdirTemp("", "verif-c13f-")
	if err != nil {
		t.Skip(err.Error())
	}
	defer os.RemoveAll(root)
	caseNo := 0
	rapid.Check(t, func(t *rapid.T) {
		caseNo++
		dir := filepath.Join(root, fmt.Sprintf("f%d", caseNo))
		_ = os.MkdirAll(dir, 0o755)
		defer os.RemoveAll(dir)
		logPath := filepath.Join(dir, "out.log")
		sink := &eventlogger.FileSink{Path: dir, FileName: "out.log", Format: rapid.SampledFrom([]string{"", "text"}).Draw(t, "format")}
		steps := rapid.SliceOfN(rapid.SampledFrom([]string{"write", "write", "write", "break", "repair", "reopen", "rename"}), 2, 12).Draw(t, "steps")
		aside := 0
		broken, failedWhileBroken, staleThenRepaired, renamedHandle := false, false, false, false
		var acked [][]byte
		count := func(v []byte) int {
			n := 0
			ents, _ := os.ReadDir(dir)
			for _, e := range ents {
				if !e.Type().IsRegular() {
					continue
				}
				b, _ := os.ReadFile(filepath.Join(dir, e.Name()))
				n += bytes.Count(b, v)
			}
			return n
		}
		for i, st := range steps {
			switch st {
			case "break":
				if broken {
					continue
				}
				aside++
				_ = os.Rename(logPath, filepath.Join(dir, fmt.Sprintf("aside-%d", aside)))
				if os.Symlink("/dev/full", logPath) != nil {
					t.Skip("cannot create symlink")
				}
				broken = true
			case "repair":
				if !broken {
					continue
				}
				_ = os.Remove(logPath)
				broken = false
				if failedWhileBroken {
					staleThenRepaired = true
				}
			case "rename":
				if broken {
					continue
				}
				aside++
				if os.Rename(logPath, filepath.Join(dir, fmt.Sprintf("aside-%d", aside))) == nil {
					renamedHandle = true
				}
			case "reopen":
				_ = sink.Reopen()
				failedWhileBroken = false
			case "write":
				v := []byte(fmt.Sprintf("<<case%d-step%d-%s>>\n", caseNo, i, strings.Repeat("x", rapid.IntRange(0, 40).Draw(t, fmt.Sprintf("pad%d", i)))))
				_, perr := sink.Process(context.Background(), &eventlogger.Event{Type: "t", Formatted: map[string][]byte{effFormat(sink.Format): v}})
				n := count(v)
				desc := fmt.Sprintf("steps=%v (failing at step %d)", steps, i)
				if perr == nil && n != 1 {
					t.Fatalf("VIOLATION C13: FileSink reported success but the value is in its files %d time(s)\ncase: %s", n, desc)
				}
				if perr != nil && n != 0 {
					t.Fatalf("VIOLATION C13: FileSink reported %q although the event's bytes were written completely (%d copy) - written and error at once\ncase: %s", perr, n, desc)
				}
				if perr == nil {
					acked = append(acked, v)
				} else if broken {
					failedWhileBroken = true
				}
				if !broken {
					failedWhileBroken = false
				}
			}
		}
		for _, v := range acked {
			if n := count(v); n != 1 {
				t.Fatalf("VIOLATION C13: acknowledged value %q is in the files %d time(s) at the end\ncase: steps=%v", v, n, steps)
			}
		}
		var cl []string
		if staleThenRepaired {
			cl = append(cl, "stale_failing_handle_then_repaired_path")
		}
		if renamedHandle {
			cl = append(cl, "write_through_renamed_file")
		}
		sec.Case(staleThenRepaired || renamedHandle, strings.Join(steps, " "), cl...)
	})
}

// detachedCtx inherits Deadline and Value from its parent but is never done.
type detachedCtx struct{ context.Context }

func (detachedCtx) Done() <-chan struct{} { return nil }
func (detachedCtx) Err() error            { return nil }

func TestC13ChannelSink(t *testing.T) {
	sec := stats.Sec("channel_sink", ruleC)
	rapid.Check(t, func(t *rapid.T) {
		// constructor
		if _, err := channel.NewChannelSink(nil, time.Second); err == nil {
			t.Fatalf("VIOLATION C13: NewChannelSink accepted a nil channel")
		}
		bad := rapid.SampledFrom([]time.Duration{0, -1, -time.Second}).Draw(t, "badTimeout")
		if _, err := channel.NewChannelSink(make(chan *eventlogger.Event), bad); err == nil {
			t.Fatalf("VIOLATION C13: NewChannelSink accepted timeout %v", bad)
		}
		capn := rapid.IntRange(0, 1).Draw(t, "cap")
		prefill := capn == 1 && rapid.Bool().Draw(t, "prefill")
		drainMs := rapid.SampledFrom([]int{-1, -1, 0, 0, 5, 60}).Draw(t, "drainAfterMs")
		timeoutMs := rapid.SampledFrom([]int{1, 5, 20, 40, 10000}).Draw(t, "timeoutMs")
		cancelMs := rapid.SampledFrom([]int{-2, -2, -1, 1, 10, 40}).Draw(t, "cancelAfterMs") // -2 never, -1 before
		deadlineMs := rapid.SampledFrom([]int{0, 0, 0, 10, 4500}).Draw(t, "ctxDeadlineMs")   // 0 = no deadline on the context
		// "detached": a hand-rolled context that keeps the parent's Deadline and values but is never done
		// (the pre-Go-1.21 idiom for letting event delivery outlive the request)
		detach := rapid.IntRange(0, 3).Draw(t, "detachedCtx") == 0
		if detach {
			cancelMs = -2
			if timeoutMs == 10000 && drainMs < 0 && !(capn == 1 && !prefill) {
				timeoutMs = 40
			}
		}
		if timeoutMs == 10000 && drainMs < 0 && cancelMs == -2 && deadlineMs != 10 && !(capn == 1 && !prefill) && !detach {
			cancelMs = 10 // nobody would ever take the event: do not sit out the 10 s timeout
		}
		ch := make(chan *eventlogger.Event, capn)
		filler := &eventlogger.Event{Type: "filler"}
		if prefill {
			ch <- filler
		}
		sink, err := channel.NewChannelSink(ch, time.Duration(timeoutMs)*time.Millisecond)
		if err != nil {
			t.Fatalf("VIOLATION C13: NewChannelSink rejected valid arguments: %v", err)
		}
		parent := context.Background()
		if deadlineMs > 0 {
			var dcancel context.CancelFunc
			parent, dcancel = context.WithTimeout(parent, time.Duration(deadlineMs)*time.Millisecond)
			defer dcancel()
		}
		ctx, cancel := context.WithCancel(parent)
		defer cancel()
		if detach {
			ctx = detachedCtx{parent}
		}
		if cancelMs == -1 {
			cancel()
		} else if cancelMs > 0 {
			tm := time.AfterFunc(time.Duration(cancelMs)*time.Millisecond, cancel)
			defer tm.Stop()
		}
		ev := &eventlogger.Event{Type: "mine"}
		var recvMu sync.Mutex
		received := 0
		stopDrain := make(chan struct{})
		drainDone := make(chan struct{})
		go func() {
			defer close(drainDone)
			if drainMs < 0 {
				<-stopDrain
				// final sweep: anything sitting in the buffer
				for {
					select {
					case x := <-ch:
						if x == ev {
							recvMu.Lock()
							received++
							recvMu.Unlock()
						}
					default:
						return
					}
				}
			}
			select {
			case <-time.After(time.Duration(drainMs) * time.Millisecond):
			case <-stopDrain:
			}
			for {
				select {
				case x := <-ch:
					if x == ev {
						recvMu.Lock()
						received++
						recvMu.Unlock()
					}
				case <-stopDrain:
					for {
						select {
						case x := <-ch:
							if x == ev {
								recvMu.Lock()
								received++
								recvMu.Unlock()
							}
						default:
							return
						}
					}
				}
			}
		}()
		start := time.Now()
		var out *eventlogger.Event
		var perr error
		returned := make(chan struct{})
		go func() {
			defer close(returned)
			out, perr = sink.Process(ctx, ev)
		}()
		bound := time.Duration(timeoutMs) * time.Millisecond
		select {
		case <-returned:
		case <-time.After(bound + 3*time.Second):
			close(stopDrain)
			<-drainDone
			for len(ch) > 0 {
				<-ch
			}
			select { // let the stuck call finish so that it does not leak into the next case
			case <-ch:
			case <-time.After(100 * time.Millisecond):
			}
			t.Fatalf("VIOLATION C13: ChannelSink.Process still blocked %v after its timeout of %dms elapsed\ncase: cap=%d prefilled=%v drainAfter=%dms timeout=%dms cancel=%dms ctxDeadline=%dms detached=%v", 3*time.Second, timeoutMs, capn, prefill, drainMs, timeoutMs, cancelMs, deadlineMs, detach)
		}
		elapsed := time.Since(start)
		// keep listening a little longer: an event must not arrive after an error was reported
		time.Sleep(30 * time.Millisecond)
		close(stopDrain)
		<-drainDone
		desc := fmt.Sprintf("cap=%d prefilled=%v drainAfter=%dms timeout=%dms cancel=%dms ctxDeadline=%dms detached=%v", capn, prefill, drainMs, timeoutMs, cancelMs, deadlineMs, detach)
		if out != nil {
			t.Fatalf("VIOLATION C13: ChannelSink returned an event\ncase: %s", desc)
		}
		recvMu.Lock()
		got := received
		recvMu.Unlock()
		if perr == nil && got != 1 {
			t.Fatalf("VIOLATION C13: ChannelSink reported success but the event was received %d time(s)\ncase: %s", got, desc)
		}
		if perr != nil && got != 0 {
			t.Fatalf("VIOLATION C13: ChannelSink reported %v but the event was delivered\ncase: %s", perr, desc)
		}
		deadline := time.Duration(timeoutMs) * time.Millisecond
		if cancelMs == -1 {
			deadline = 0
		} else if cancelMs > 0 && time.Duration(cancelMs)*time.Millisecond < deadline {
			deadline = time.Duration(cancelMs) * time.Millisecond
		}
		if deadlineMs > 0 && cancelMs != -1 && !detach && time.Duration(deadlineMs)*time.Millisecond < deadline {
			deadline = time.Duration(deadlineMs) * time.Millisecond
		}
		if elapsed > deadline+2*time.Second {
			t.Fatalf("VIOLATION C13: ChannelSink blocked %v, longer than min(timeout, context) = %v\ncase: %s", elapsed, deadline, desc)
		}
		isCtxErr := errors.Is(perr, context.Canceled) || errors.Is(perr, context.DeadlineExceeded) // evidence class only
		if perr != nil && ctx.Err() == nil && elapsed < time.Duration(timeoutMs)*time.Millisecond-time.Millisecond {
			// an error is legitimate once the timeout elapsed or the context is done, whatever the error value looks
			// like (the cancel timer is armed before the call, so a descheduled test goroutine may find the context
			// done at once: only a context that is still not done now certainly was not done then)
			t.Fatalf("VIOLATION C13: ChannelSink gave up after %v with %q, before its timeout of %dms elapsed and although the context is not done\ncase: %s", elapsed, perr, timeoutMs, desc)
		}
		room := capn == 1 && !prefill
		if perr != nil && cancelMs == -2 && deadlineMs == 0 && (room || (drainMs == 0 && timeoutMs == 10000)) {
			t.Fatalf("VIOLATION C13: ChannelSink failed (%v) although the channel could take the event and the context was never cancelled\ncase: %s", perr, desc)
		}
		cl := []string{}
		if detach {
			cl = append(cl, "detached_context")
			if deadlineMs > 0 {
				cl = append(cl, "detached_context_with_parent_deadline")
			}
		}
		if perr == nil {
			cl = append(cl, "delivered")
		} else if isCtxErr {
			cl = append(cl, "ctx_error")
		} else {
			cl = append(cl, "timeout_error")
		}
		nt := (deadlineMs > 0 && timeoutMs < 10000) || (cancelMs > 0 && timeoutMs < 10000 && cancelMs != timeoutMs) || (drainMs > 0 && time.Duration(drainMs)*time.Millisecond < deadline+20*time.Millisecond)
		if nt {
			cl = append(cl, "deadline_order_matters")
		}
		sec.Case(nt, desc, cl...)
	})
}
