package c13

import (
	"context"
	"fmt"
	"strings"
	"testing"
	"time"

	"github.com/hashicorp/eventlogger"
	"github.com/hashicorp/eventlogger/sinks/channel"
	"pgregory.net/rapid"
	"verif/harness/internal/stats"
)

const ruleChanSeq = "rapid: ONE ChannelSink (buffer of one event, timeout 60 ms) used for a history of 3-6 calls drawn from: Process with a long-lived context, Process with a context that expires after 15 ms, Process with an already cancelled context, and taking one event off the channel; oracle per call, given whether the channel had room: with room the event is handed over (nil error, received exactly once); without room an error is returned, and when Process returns it either its context is done or at least timeout minus 2 ms have passed since the call began, and it returns no later than min(timeout, context) plus 3 s, and the event is never received - whatever the earlier calls of the history were (a timeout, an expired context, a hand-over); non-trivial = a blocked call follows a call that ended differently; distinct = history"

// TestC13ChannelSinkSequences: the timeout / context clause holds for every call of a sink's life, not only the first.
func TestC13ChannelSinkSequences(t *testing.T) {
	sec := stats.Sec("channel_sink_sequences", ruleChanSeq)
	const timeout = 60 * time.Millisecond
	rapid.Check(t, func(t *rapid.T) {
		ops := rapid.SliceOfN(rapid.SampledFrom([]string{"send", "send", "send-ctx15ms", "send-cancelled", "take"}), 3, 6).Draw(t, "history")
		d := strings.Join(ops, " ")
		ch := make(chan *eventlogger.Event, 1)
		sink, err := channel.NewChannelSink(ch, timeout)
		if err != nil {
			t.Fatalf("harness: %v", err)
		}
		inChan := 0
		lastEnd, varied := "", false
		for i, op := range ops {
			if op == "take" {
				select {
				case <-ch:
					inChan--
				default:
				}
				continue
			}
			ctx, cancel := context.WithCancel(context.Background())
			limit := timeout
			switch op {
			case "send-ctx15ms":
				cancel()
				ctx, cancel = context.WithTimeout(context.Background(), 15*time.Millisecond)
				limit = 15 * time.Millisecond
			case "send-cancelled":
				cancel()
				limit = 0
			}
			ev := &eventlogger.Event{Type: "t", Payload: i}
			room := inChan == 0
			start := time.Now()
			type res struct {
				err    error
				ctxErr error
				el     time.Duration
			}
			done := make(chan res, 1)
			// the context's state and the elapsed time are taken the moment Process returns: the
			// 15 ms context started before `start` was read, so elapsed time alone cannot tell
			// whether it was done (seen under load: "gave up after 12.1ms", context really expired)
			go func() { _, e := sink.Process(ctx, ev); done <- res{e, ctx.Err(), time.Since(start)} }()
			var r res
			select {
			case r = <-done:
			case <-time.After(limit + 3*time.Second):
				cancel()
				t.Fatalf("VIOLATION C13: call %d (%s) had not returned %s after min(timeout, context) = %s had passed (channel full: %v)\nhistory: %s", i, op, 3*time.Second, limit, !room, d)
			}
			perr, el := r.err, r.el
			cancel()
			end := "error"
			if perr == nil {
				end = "delivered"
			}
			switch {
			case room && op != "send-cancelled":
				if perr != nil {
					t.Fatalf("VIOLATION C13: call %d (%s): the channel had room but Process returned %v after %s\nhistory: %s", i, op, perr, el, d)
				}
				inChan++
			case room: // already cancelled context and room: delivery or a context error are both fine
				if perr == nil {
					inChan++
				}
			default:
				if perr == nil {
					t.Fatalf("VIOLATION C13: call %d (%s): the channel was full and nobody received, yet Process reported success\nhistory: %s", i, op, d)
				}
				if r.ctxErr == nil && el < timeout-2*time.Millisecond {
					t.Fatalf("VIOLATION C13: call %d (%s): Process gave up after %s with %q although neither its timeout (%s) had elapsed nor its context was done (min = %s); the previous call ended with %q\nhistory: %s", i, op, el, perr, timeout, limit, lastEnd, d)
				}
				if lastEnd != "" && lastEnd != "error-blocked" {
					varied = true
				}
				end = "error-blocked"
			}
			if len(ch) != inChan {
				t.Fatalf("VIOLATION C13: after call %d (%s, error %v) the channel holds %d events, expected %d\nhistory: %s", i, op, perr, len(ch), inChan, d)
			}
			lastEnd = end
		}
		sec.Case(varied, d, fmt.Sprintf("calls=%d", len(ops)))
	})
}
