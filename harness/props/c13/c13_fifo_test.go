package c13

import (
	"bytes"
	"context"
	"fmt"
	"io"
	"os"
	"path/filepath"
	"syscall"
	"testing"
	"time"

	"github.com/hashicorp/eventlogger"
	"pgregory.net/rapid"
	"verif/harness/internal/stats"
)

const rulePartial = "rapid: the FileSink's path is a named pipe; the first reader takes 1-100000 bytes of a 150000-400000 byte event and goes away (the write fails after a PARTIAL write), a second reader then attaches (the sink's single retry re-opens the path and writes again); oracle = if Process reports success the second reader received exactly the event's bytes, complete and contiguous; non-trivial = the first write was partial (the first reader got >0 bytes) and Process reported success; distinct = sizes"

// TestC13FileSinkPartialWrite: the retry after a write that failed half-way.
func TestC13FileSinkPartialWrite(t *testing.T) {
	sec := stats.Sec("file_sink_partial_write", rulePartial)
	root, err := os.MkdirTemp("", "verif-c13p-")
	if err != nil {
		t.Skip(err.Error())
	}
	defer os.RemoveAll(root)
	caseNo := 0
	rapid.Check(t, func(t *rapid.T) {
		caseNo++
		size := rapid.IntRange(150000, 400000).Draw(t, "eventBytes")
		take := rapid.IntRange(1, 100000).Draw(t, "firstReaderTakes")
		d := fmt.Sprintf("eventBytes=%d firstReaderTakes=%d", size, take)
		dir := filepath.Join(root, fmt.Sprintf("p%d", caseNo))
		_ = os.MkdirAll(dir, 0o755)
		defer os.RemoveAll(dir)
		fifo := filepath.Join(dir, "out.log")
		if err := syscall.Mkfifo(fifo, 0o600); err != nil {
			t.Skip("mkfifo: " + err.Error())
		}
		event := make([]byte, size)
		for i := range event {
			event[i] = byte('a' + (i*7+i/251)%26)
		}
		copy(event, fmt.Sprintf("<<event-%d-start>>", caseNo))
		copy(event[size-20:], "<<event-end>>......\n")
		firstGot := make(chan int, 1)
		go func() {
			f, err := os.OpenFile(fifo, os.O_RDONLY, 0)
			if err != nil {
				firstGot <- -1
				return
			}
			n, _ := io.ReadFull(f, make([]byte, take))
			f.Close()
			firstGot <- n
		}()
		second := make(chan []byte, 1)
		stopSecond := make(chan struct{})
		go func() {
			n := <-firstGot
			firstGot <- n
			time.Sleep(150 * time.Millisecond) // let the writer see the pipe without reader (EPIPE) before a new reader attaches
			f, err := os.OpenFile(fifo, os.O_RDONLY, 0)
			if err != nil {
				second <- nil
				return
			}
			defer f.Close()
			var got []byte
			buf := make([]byte, 65536)
			dataCh := make(chan []byte)
			go func() {
				for {
					k, err := f.Read(buf)
					if k > 0 {
						dataCh <- append([]byte(nil), buf[:k]...)
					}
					if err != nil {
						close(dataCh)
						return
					}
				}
			}()
			for {
				select {
				case b, ok := <-dataCh:
					if !ok {
						second <- got
						return
					}
					got = append(got, b...)
				case <-stopSecond:
					stopAt := time.Now()
					// drain what is already in the pipe
					for {
						select {
						case b, ok := <-dataCh:
							if !ok {
								second <- got
								return
							}
							got = append(got, b...)
						case <-time.After(50 * time.Millisecond):
							if len(got) > 0 && len(got) < size && time.Since(stopAt) < 3*time.Second {
								continue // a loaded machine: more of the event may still be sitting in the pipe
							}
							second <- got
							return
						}
					}
				}
			}
		}()
		sink := &eventlogger.FileSink{Path: dir, FileName: "out.log"}
		var perr error
		done := make(chan struct{})
		go func() {
			defer close(done)
			_, perr = sink.Process(context.Background(), &eventlogger.Event{Type: "t", Formatted: map[string][]byte{eventlogger.JSONFormat: event}})
		}()
		select {
		case <-done:
		case <-time.After(20 * time.Second):
			fmt.Printf("\nINCONCLUSIVE-MARK FileSink.Process on a named pipe did not return within 20s\n")
			close(stopSecond)
			t.Skip("inconclusive")
		}
		close(stopSecond)
		got := <-second
		n1 := <-firstGot
		_ = sink.Reopen
		continued := n1 >= 0 && n1 <= size && bytes.Equal(got, event[n1:])
		if perr == nil && continued {
			// the second reader attached before the writer noticed that the first one had gone: the one write simply
			// went on, nothing failed
			sec.Case(false, d, "write_never_failed")
			return
		}
		if perr == nil {
			if !bytes.Equal(got, event) {
				where := bytes.Index(event, got)
				t.Fatalf("VIOLATION C13: FileSink reported success for a %d-byte event whose first write failed after a partial write (the first reader took %d bytes), but the stream it re-opened received %d bytes that are not the event (they start at offset %d of the event)\ncase: %s", size, n1, len(got), where, d)
			}
		}
		cl := []string{}
		if perr == nil {
			cl = append(cl, "retry_succeeded")
		} else {
			cl = append(cl, "error_reported")
		}
		sec.Case(n1 > 0 && perr == nil, d, cl...)
	})
}
