package c01

import (
	"context"
	"fmt"
	"testing"
	"time"

	"github.com/hashicorp/eventlogger"
	"pgregory.net/rapid"
	"verif/harness/internal/simul"
	"verif/harness/internal/stats"
)

const ruleFirstTouch = "rapid: one Broker, 150 rounds per case, each round uses an event type no call has named before; 2-4 RegisterPipeline calls for that type (distinct pipeline ids, own nodes), optionally beside a threshold setter and IsAnyPipelineRegistered for the same type, are released at the same instant (spin barrier; the nodes' Type() yields); after all returned nil one Send of that type with a live context is made; oracle = every one of the registered pipelines is traversed exactly once (formatter once, sink once) and Status has one entry per pipeline; non-trivial = at least two registrations raced on the new type; distinct = configuration"

// TestC01FirstTouch: "every pipeline registered for that event type at that moment ... is traversed exactly once",
// for pipelines whose registrations were the first calls ever to name the event type.
func TestC01FirstTouch(t *testing.T) {
	sec := stats.Sec("first_touch", ruleFirstTouch)
	rapid.Check(t, func(t *rapid.T) {
		nreg := rapid.IntRange(2, 4).Draw(t, "registrations")
		setter := rapid.IntRange(0, 2).Draw(t, "setter") // 0 none, 1 SetSuccessThreshold, 2 SetSuccessThresholdSinks
		probe := rapid.Bool().Draw(t, "isAnyProbe")
		yield := rapid.Bool().Draw(t, "typeYields")
		d := fmt.Sprintf("registrations=%d setter=%d probe=%v typeYields=%v", nreg, setter, probe, yield)
		b, _ := eventlogger.NewBroker()
		ctx := context.Background()
		for round := 0; round < 150; round++ {
			et := eventlogger.EventType(fmt.Sprintf("T%d", round))
			type pl struct {
				m, s *simul.Node
				ids  []eventlogger.NodeID
			}
			pls := make([]*pl, nreg)
			for i := range pls {
				p := &pl{m: simul.New(fmt.Sprintf("m%d-%d", round, i), eventlogger.NodeTypeFormatter), s: simul.New(fmt.Sprintf("s%d-%d", round, i), eventlogger.NodeTypeSink)}
				p.m.Yield, p.s.Yield = yield, yield
				for _, n := range []*simul.Node{p.m, p.s} {
					if err := b.RegisterNode(eventlogger.NodeID(n.Name), n); err != nil {
						t.Fatalf("harness: %v", err)
					}
					p.ids = append(p.ids, eventlogger.NodeID(n.Name))
				}
				pls[i] = p
			}
			errs := make([]error, nreg)
			var fs []func()
			for i := range pls {
				i := i
				fs = append(fs, func() {
					errs[i] = b.RegisterPipeline(eventlogger.Pipeline{PipelineID: eventlogger.PipelineID(fmt.Sprintf("p%d", i)), EventType: et, NodeIDs: pls[i].ids})
				})
			}
			switch setter {
			case 1:
				fs = append(fs, func() { _ = b.SetSuccessThreshold(et, 0) })
			case 2:
				fs = append(fs, func() { _ = b.SetSuccessThresholdSinks(et, 0) })
			}
			if probe {
				fs = append(fs, func() { _ = b.IsAnyPipelineRegistered(et) })
			}
			if !simul.Burst(20*time.Second, fs...) {
				fmt.Printf("\nINCONCLUSIVE-MARK first-touch burst did not return (round %d)\n", round)
				t.Skip("inconclusive")
			}
			for i, err := range errs {
				if err != nil {
					t.Fatalf("VIOLATION C01: RegisterPipeline(p%d) for the new event type %s failed: %v\ncase: %s", i, et, err, d)
				}
			}
			st, err := b.Send(ctx, et, "x")
			for i, p := range pls {
				if m, s := p.m.Processed.Load(), p.s.Processed.Load(); m != 1 || s != 1 {
					t.Fatalf("VIOLATION C01: pipeline p%d was registered (nil error) for event type %s together with %d other first registrations of that type, but a later Send invoked its formatter %d and its sink %d time(s), want 1 and 1 (Send error: %v)\ncase: %s round=%d", i, et, nreg-1, m, s, err, d, round)
				}
			}
			if n := len(st.Complete()) + len(st.Warnings); n != nreg {
				t.Fatalf("VIOLATION C01: %d pipelines are registered for %s, Status has %d entries\ncase: %s round=%d", nreg, et, n, d, round)
			}
			// keep the registry small: the nodes of this round are not needed again
			for i := range pls {
				_, _ = b.RemovePipelineAndNodes(ctx, et, eventlogger.PipelineID(fmt.Sprintf("p%d", i)))
			}
		}
		sec.Case(true, d, fmt.Sprintf("setter=%d", setter))
	})
}
