package c01

import (
	"context"
	"fmt"
	"testing"

	"github.com/hashicorp/eventlogger"
	"pgregory.net/rapid"
	"verif/harness/internal/simul"
	"verif/harness/internal/stats"
)

const ruleLive = "rapid: 2-5 pipelines [root formatter sink] for one event type, registered in order; during ONE Send (context live) the root node of a drawn pipeline, from inside its Process, does one of: removes its own pipeline, removes an earlier pipeline, overwrites a later (not yet started) or earlier pipeline with an identical definition or with one that has another sink, registers a further pipeline, or Sends a nested event of the same type with the context it was given; oracle = every pipeline that stayed registered throughout is traversed exactly once by that Send (formatter and sink invoked once, in order), an overwritten pipeline by exactly one of its two versions, a removed or added one at most once, and the nested Send traverses every pipeline registered at its moment exactly once as well; Status has one entry per traversal that ended; non-trivial = the mutation concerned a pipeline other than the one whose node made it; distinct = configuration"

type liveSink struct{ *simul.Node }

// TestC01MutationDuringSend: "every pipeline registered for that event type at that moment ... is traversed exactly once"
// while nodes change the registry or send nested events.
func TestC01MutationDuringSend(t *testing.T) {
	sec := stats.Sec("mutation_during_send", ruleLive)
	rapid.Check(t, func(t *rapid.T) {
		np := rapid.IntRange(2, 5).Draw(t, "pipelines")
		actor := rapid.IntRange(0, np-1).Draw(t, "actingPipeline")
		what := rapid.SampledFrom([]string{"remove-own", "remove-other", "overwrite-identical", "overwrite-other-sink", "register-new", "nested-send"}).Draw(t, "mutation")
		target := rapid.IntRange(0, np-1).Draw(t, "targetPipeline")
		if what == "remove-own" {
			target = actor
		}
		if (what == "remove-other" || what == "overwrite-identical" || what == "overwrite-other-sink") && target == actor {
			target = (actor + 1) % np
		}
		d := fmt.Sprintf("pipelines=%d actor=p%d mutation=%s target=p%d", np, actor, what, target)
		ctx := context.Background()
		b, _ := eventlogger.NewBroker()
		type pl struct {
			root, fm, sink *simul.Node
			ids            []eventlogger.NodeID
		}
		pls := make([]*pl, np)
		altSink := simul.New("alt-sink", eventlogger.NodeTypeSink)
		_ = b.RegisterNode("alt-sink", altSink)
		newM, newS := simul.New("new-m", eventlogger.NodeTypeFormatter), simul.New("new-s", eventlogger.NodeTypeSink)
		_ = b.RegisterNode("new-m", newM)
		_ = b.RegisterNode("new-s", newS)
		depth := 0
		for i := range pls {
			p := &pl{root: simul.New(fmt.Sprintf("r%d", i), eventlogger.NodeTypeFilter), fm: simul.New(fmt.Sprintf("m%d", i), eventlogger.NodeTypeFormatter), sink: simul.New(fmt.Sprintf("s%d", i), eventlogger.NodeTypeSink)}
			for _, n := range []*simul.Node{p.root, p.fm, p.sink} {
				n.Yield = false
				_ = b.RegisterNode(eventlogger.NodeID(n.Name), n)
				p.ids = append(p.ids, eventlogger.NodeID(n.Name))
			}
			pls[i] = p
		}
		acted := false
		var nestedErr error
		nestedRan := false
		pls[actor].root.OnProcessCtx = func(nctx context.Context) {
			if acted || depth > 0 {
				return
			}
			acted = true
			pid := eventlogger.PipelineID(fmt.Sprintf("p%d", target))
			switch what {
			case "remove-own", "remove-other":
				_ = b.RemovePipeline("T", pid)
			case "overwrite-identical":
				_ = b.RegisterPipeline(eventlogger.Pipeline{PipelineID: pid, EventType: "T", NodeIDs: pls[target].ids})
			case "overwrite-other-sink":
				_ = b.RegisterPipeline(eventlogger.Pipeline{PipelineID: pid, EventType: "T", NodeIDs: []eventlogger.NodeID{pls[target].ids[0], pls[target].ids[1], "alt-sink"}})
			case "register-new":
				_ = b.RegisterPipeline(eventlogger.Pipeline{PipelineID: "pnew", EventType: "T", NodeIDs: []eventlogger.NodeID{"new-m", "new-s"}})
			case "nested-send":
				depth++
				nestedRan = true
				_, nestedErr = b.Send(nctx, "T", "nested")
				depth--
			}
		}
		for i, p := range pls {
			if err := b.RegisterPipeline(eventlogger.Pipeline{PipelineID: eventlogger.PipelineID(fmt.Sprintf("p%d", i)), EventType: "T", NodeIDs: p.ids}); err != nil {
				t.Fatalf("harness: %v", err)
			}
		}
		st, err := b.Send(ctx, "T", "outer")
		if err != nil {
			t.Fatalf("VIOLATION C01: Send failed: %v\ncase: %s", err, d)
		}
		if !acted {
			t.Fatalf("VIOLATION C01: pipeline p%d was registered but its first node was not invoked\ncase: %s", actor, d)
		}
		sends := int64(1)
		if what == "nested-send" {
			if !nestedRan || nestedErr != nil {
				t.Fatalf("VIOLATION C01: a nested Send of the same event type, made by a node with the context it was given, failed: %v\ncase: %s", nestedErr, d)
			}
			sends = 2
		}
		for i, p := range pls {
			lo, hi := sends, sends
			switch {
			case i == target && (what == "remove-own" || what == "remove-other"):
				lo = 0
				if what == "remove-own" {
					lo = 1 // its traversal had begun when it was removed
				}
			case i == target && what == "overwrite-other-sink":
				got := p.sink.Processed.Load() + altSink.Processed.Load()
				if got != 1 {
					t.Fatalf("VIOLATION C01: pipeline p%d was overwritten during the Send and was processed %d times by its two versions together (exactly one expected)\ncase: %s", i, got, d)
				}
				continue
			}
			if got := p.sink.Processed.Load(); got < lo || got > hi {
				t.Fatalf("VIOLATION C01: pipeline p%d stayed registered during the Send(s) but its sink was invoked %d time(s) (want %d..%d)\ncase: %s", i, got, lo, hi, d)
			}
			if got := p.fm.Processed.Load(); got != p.sink.Processed.Load() {
				t.Fatalf("VIOLATION C01: pipeline p%d: formatter invoked %d times, sink %d times\ncase: %s", i, got, p.sink.Processed.Load(), d)
			}
		}
		if what == "register-new" && newS.Processed.Load() > 1 {
			t.Fatalf("VIOLATION C01: the pipeline registered during the Send was traversed %d times\ncase: %s", newS.Processed.Load(), d)
		}
		_ = st
		sec.Case(target != actor, d, "mutation="+what)
	})
}
