// C01 — every registered pipeline of the event's type sees the event, in node order.
package c01

import (
	"context"
	"fmt"
	"sort"
	"strings"
	"sync"
	"testing"
	"time"

	"github.com/hashicorp/eventlogger"
	"pgregory.net/rapid"
	"verif/harness/internal/bgen"
	"verif/harness/internal/model"
	"verif/harness/internal/nodes"
	"verif/harness/internal/sched"
	"verif/harness/internal/stats"
)

func TestMain(m *testing.M) { stats.Main(m, "C01") }

const rule = "rapid: registry history (RegisterNode incl. overwrite, RegisterPipeline incl. overwrite/Deny, RemovePipeline, RemovePipelineAndNodes) over 3 event types, 4 pipeline ids, 11 pooled node ids, interleaved with Sends (per-node script pass/replace/drop/fail, live / pre-cancelled / hook-placed cancel, hook delay plan); oracle = reference dispatch model -> multiset of (node instance, lineage) invocations, pointer hand-off, happens-before; non-trivial Send = >=2 pipelines of the sent type and (a node shared between them or a non-pass behaviour reached); distinct = history descriptor up to that Send"

type sendObs struct {
	calls []nodes.Call
	st    eventlogger.Status
	err   error
}

// checkSend runs one Send and applies the C01 oracle. Returns (violation, nontrivial, classes).
func checkSend(x *model.Exec, s *bgen.SendStep) (string, bool, []string) {
	script := bgen.ScriptFor(x, s.Script)
	lin := x.NewSend(script)
	lin.ErrKind = bgen.ErrKindsFor(x, s.ErrKinds)
	exp := x.Expect(s.ET, lin)
	// a registry call made re-entrantly by the first node that runs: this Send may legitimately see the
	// pipeline set before or after it (sub-multiset of the union), every LATER Send must see the new set
	var reOnce sync.Once
	reDone := false
	if s.Reentrant != nil {
		op := *s.Reentrant
		lin.Enter = func(*nodes.N) {
			reOnce.Do(func() {
				x.Apply(op)
				reDone = true
			})
		}
	}
	x.W.Reset()
	var ctx context.Context
	var cancel context.CancelFunc
	plan := sched.Plan{Actions: s.Actions, CancelHit: -1}
	if s.Ctx == 2 {
		plan.CancelPoint, plan.CancelOcc = s.CancelPoint, s.CancelOcc
	}
	ctx, cancel, ctl := sched.WithKind(context.Background(), plan, s.CtxKind)
	defer cancel()
	if s.Ctx == 1 {
		cancel()
	}
	_, _ = x.B.Send(ctx, eventlogger.EventType(s.ET), lin)
	// wait for stragglers after a cancelled Send: nodes may still be running
	if tr, _ := ctl.Snapshot(); s.Ctx != 0 && len(tr) > 0 { // no hook hit at all = Send had no graph for the type
		if !sched.WaitPoint(ctl, "range.exit", 5*time.Second) {
			return "harness: the fan-out goroutines of a cancelled Send did not finish within 5s (see C03)", false, nil
		}
	}
	_, cancelledAt := ctl.Snapshot()
	live := s.Ctx == 0 || (s.Ctx == 2 && cancelledAt == "")
	calls := x.W.Calls()
	if reDone {
		// merge the expectations of the pipeline set after the re-entrant call; only the sub-multiset rule applies
		after := x.Expect(s.ET, lin)
		seen := map[*model.Pipe]bool{}
		for _, tr := range exp {
			seen[tr.Pipe] = true
		}
		for _, tr := range after {
			if !seen[tr.Pipe] {
				exp = append(exp, tr)
			}
		}
		live = false
	}

	var classes []string
	expCount := map[string]int{}
	shared := map[*nodes.N]int{}
	nonPass := false
	for _, tr := range exp {
		seen := map[*nodes.N]bool{}
		for _, c := range tr.Calls {
			expCount[c.Key()]++
			if !seen[c.Node] {
				seen[c.Node] = true
				shared[c.Node]++
			} else {
				classes = append(classes, "duplicate_node_in_pipeline")
			}
			if b := script[c.Node]; b != nodes.Pass {
				nonPass = true
			}
		}
	}
	isShared := false
	for _, n := range shared {
		if n > 1 {
			isShared = true
		}
	}
	obsCount := map[string]int{}
	for _, c := range calls {
		if c.SendID != lin.SendID {
			return fmt.Sprintf("node %s invoked with an event that is not of this Send (lineage %q)", c.Node.Name, c.InLineage), false, nil
		}
		obsCount[c.Node.Name+"@"+c.InLineage]++
	}
	if live {
		if msg := diffCounts(expCount, obsCount, true); msg != "" {
			return "live context: " + msg, false, nil
		}
	} else {
		if msg := diffCounts(expCount, obsCount, false); msg != "" {
			return "cancelled context: " + msg, false, nil
		}
		if reDone {
			classes = append(classes, "reentrant_registry_call_during_send")
		} else {
			classes = append(classes, "cancelled")
		}
		if cancelledAt != "" {
			classes = append(classes, "cancel_landed@"+cancelledAt)
		}
	}
	// first node of every traversal: sent type, payload identity, creation time, empty format table
	rootKeys := map[string]bool{}
	for _, tr := range exp {
		if len(tr.Calls) > 0 {
			rootKeys[tr.Calls[0].Key()] = true
		}
	}
	// predecessor relation from the expected traversals: key -> set of predecessor keys
	pred := map[string]map[string]bool{}
	for _, tr := range exp {
		for i := 1; i < len(tr.Calls); i++ {
			k := tr.Calls[i].Key()
			if pred[k] == nil {
				pred[k] = map[string]bool{}
			}
			pred[k][tr.Calls[i-1].Key()] = true
		}
	}
	byKey := map[string][]nodes.Call{}
	for _, c := range calls {
		k := c.Node.Name + "@" + c.InLineage
		byKey[k] = append(byKey[k], c)
	}
	var rootPtr *eventlogger.Event
	for _, c := range calls {
		k := c.Node.Name + "@" + c.InLineage
		okRoot := false
		if rootKeys[k] {
			// could be a root invocation: check the first-node clause
			if c.InType == eventlogger.EventType(s.ET) && c.InPayload == interface{}(lin) && c.InCreated && c.InFmtLen == 0 {
				okRoot = true
			}
			if okRoot && x.Stopped != nil && !c.InCreatedAt.Equal(*x.Stopped) && len(pred[k]) == 0 {
				// StopTimeAt is documented to make the timestamps predictable: the creation time is the stopped instant
				return fmt.Sprintf("the Broker's clock was stopped at %s (StopTimeAt) but the first node %s received an event created at %s", x.Stopped.Format(time.RFC3339Nano), c.Node.Name, c.InCreatedAt.Format(time.RFC3339Nano)), false, nil
			}
		}
		okPred := false
		for pk := range pred[k] {
			for _, d := range byKey[pk] {
				if d.Out != nil && d.Err == nil && d.Out == c.In && d.SeqExit < c.SeqEnter {
					okPred = true
				}
			}
		}
		if !okRoot && !okPred {
			if rootKeys[k] && len(pred[k]) == 0 {
				return fmt.Sprintf("first node %s did not receive an event with the sent type/payload, a creation time and an empty format table (type=%q created=%v formats=%d samePayload=%v)", c.Node.Name, c.InType, c.InCreated, c.InFmtLen, c.InPayload == interface{}(lin)), false, nil
			}
			return fmt.Sprintf("node %s (lineage %q) was not handed the event its predecessor returned, or started before the predecessor returned", c.Node.Name, c.InLineage), false, nil
		}
		if okRoot && !okPred {
			if rootPtr == nil {
				rootPtr = c.In
			}
		}
	}
	if len(exp) >= 2 {
		classes = append(classes, "multi_pipeline")
	}
	if isShared {
		classes = append(classes, "shared_node")
	}
	if len(x.PipesOf(s.ET)) == 0 {
		classes = append(classes, "no_pipeline_for_type")
	}
	nt := len(exp) >= 2 && (isShared || nonPass)
	return "", nt, classes
}

func diffCounts(exp, obs map[string]int, equal bool) string {
	var keys []string
	for k := range exp {
		keys = append(keys, k)
	}
	for k := range obs {
		if _, ok := exp[k]; !ok {
			keys = append(keys, k)
		}
	}
	sort.Strings(keys)
	var bad []string
	for _, k := range keys {
		e, o := exp[k], obs[k]
		if o > e || (equal && o != e) {
			bad = append(bad, fmt.Sprintf("%s expected %d observed %d", k, e, o))
		}
	}
	if len(bad) > 0 {
		return "invocations differ from the registered pipelines: " + strings.Join(bad, "; ")
	}
	return ""
}

func TestC01Dispatch(t *testing.T) {
	sec := stats.Sec("dispatch", rule)
	maxSteps := stats.EnvInt("C01_STEPS", 14)
	rapid.Check(t, func(t *rapid.T) {
		distinct := rapid.Bool().Draw(t, "distinctRoots")
		x := model.NewExec()
		setup := bgen.Setup(t)
		for _, op := range setup {
			x.Apply(op)
		}
		steps := bgen.GenSteps(t, maxSteps, distinct, 2)
		var hist []string
		for _, op := range setup {
			if op.SinkRet {
				hist = append(hist, op.String())
			}
		}
		anyNT := false
		for _, st := range steps {
			hist = append(hist, st.String())
			if st.Op != nil {
				x.Apply(*st.Op)
				continue
			}
			msg, nt, classes := checkSend(x, st.Send)
			if msg != "" {
				t.Fatalf("VIOLATION C01: %s\nhistory: %s", msg, strings.Join(hist, "; "))
			}
			if distinct {
				classes = append(classes, "distinct_roots")
			}
			sec.Case(nt, strings.Join(hist, "; "), classes...)
			anyNT = anyNT || nt
		}
		_ = anyNT
	})
}
