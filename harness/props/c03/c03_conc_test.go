package c03

import (
	"context"
	"fmt"
	"strings"
	"sync"
	"testing"
	"time"

	"github.com/hashicorp/eventlogger"
	"pgregory.net/rapid"
	"verif/harness/internal/leak"
	"verif/harness/internal/simul"
	"verif/harness/internal/stats"
)

const ruleBusy = "rapid: a Send that is in flight (its first node blocks until the harness releases it, context never cancelled), 0-2 goroutines issuing writing Broker calls (RegisterNode, SetSuccessThreshold, RegisterPipeline / RemovePipeline / RemovePipelineAndNodes for the type whose Send is in flight) queued beside it, then a second Send whose context is cancelled before the call / 1ms after / by a 5ms timeout, and optionally a node whose Process itself issues a writing Broker call (RegisterNode) before passing the event on; oracle = the second Send returns within 3 s of its cancellation while the first is still in flight (a miss counts only if the goroutine dump shows it blocked inside the library), and once the nodes are released every call returns; non-trivial = >=1 queued writer; distinct = configuration"

func TestC03BusyBroker(t *testing.T) {
	sec := stats.Sec("busy_broker", ruleBusy)
	rapid.Check(t, func(t *rapid.T) {
		writers := rapid.IntRange(0, 2).Draw(t, "queuedWriters")
		cancelMode := rapid.SampledFrom([]string{"before", "after-1ms", "timeout-5ms"}).Draw(t, "cancel")
		settleUs := rapid.SampledFrom([]int{0, 200, 2000}).Draw(t, "settleMicros")
		reentrantWriter := rapid.IntRange(0, 3).Draw(t, "reentrantWriter") == 0
		sameType := rapid.Bool().Draw(t, "secondSendSameType")
		writerKind := rapid.IntRange(0, 4).Draw(t, "writerKind")
		d := fmt.Sprintf("queuedWriters=%d cancel=%s settle=%dus reentrantWriterNode=%v secondSendSameType=%v writerKind=%d", writers, cancelMode, settleUs, reentrantWriter, sameType, writerKind)
		b, _ := eventlogger.NewBroker()
		f, m, s := simul.New("f", eventlogger.NodeTypeFilter), simul.New("m", eventlogger.NodeTypeFormatter), simul.New("s", eventlogger.NodeTypeSink)
		f.Block = make(chan struct{})
		f.Entered = make(chan struct{}, 8)
		if reentrantWriter {
			m.OnProcess = func() { _ = b.RegisterNode("from-process", simul.New("fp", eventlogger.NodeTypeFilter)) }
		}
		_ = b.RegisterNode("f", f)
		_ = b.RegisterNode("m", m)
		_ = b.RegisterNode("s", s)
		_ = b.RegisterPipeline(eventlogger.Pipeline{PipelineID: "p", EventType: "T", NodeIDs: []eventlogger.NodeID{"f", "m", "s"}})
		_ = b.RegisterNode("m2", simul.New("m2", eventlogger.NodeTypeFormatter))
		_ = b.RegisterNode("s2", simul.New("s2", eventlogger.NodeTypeSink))
		_ = b.RegisterPipeline(eventlogger.Pipeline{PipelineID: "q", EventType: "U", NodeIDs: []eventlogger.NodeID{"m2", "s2"}})
		_ = b.RegisterNode("m3", simul.New("m3", eventlogger.NodeTypeFormatter))
		_ = b.RegisterNode("s3", simul.New("s3", eventlogger.NodeTypeSink))
		_ = b.RegisterPipeline(eventlogger.Pipeline{PipelineID: "rm-me", EventType: "T", NodeIDs: []eventlogger.NodeID{"m3", "s3"}})
		var wg sync.WaitGroup
		released := false
		release := func() {
			if !released {
				released = true
				close(f.Block)
			}
		}
		defer release()
		wg.Add(1)
		var firstErr error
		go func() {
			defer wg.Done()
			_, firstErr = b.Send(context.Background(), "T", "first")
		}()
		select {
		case <-f.Entered:
		case <-time.After(10 * time.Second):
			fmt.Printf("\nINCONCLUSIVE-MARK the first Send never reached its node\n")
			t.Skip("inconclusive")
		}
		for i := 0; i < writers; i++ {
			wg.Add(1)
			go func(i int) {
				defer wg.Done()
				switch (i + writerKind) % 5 {
				case 0:
					_ = b.RegisterNode("queued", simul.New("queued", eventlogger.NodeTypeFilter))
				case 1:
					_ = b.SetSuccessThreshold("T", 0)
				case 2: // a further pipeline for the type whose Send is in flight
					_ = b.RegisterPipeline(eventlogger.Pipeline{PipelineID: "extra", EventType: "T", NodeIDs: []eventlogger.NodeID{"m2", "s2"}})
				case 3:
					_ = b.RemovePipeline("T", "extra")
					_ = b.RemovePipeline("U", "q-none")
				case 4: // a pipeline of the type whose Send is in flight is removed together with its nodes
					_, _ = b.RemovePipelineAndNodes(context.Background(), "T", "rm-me")
				}
			}(i)
		}
		if settleUs > 0 {
			time.Sleep(time.Duration(settleUs) * time.Microsecond)
		}
		ctx, cancel := context.WithCancel(context.Background())
		switch cancelMode {
		case "before":
			cancel()
		case "after-1ms":
			tm := time.AfterFunc(time.Millisecond, cancel)
			defer tm.Stop()
		default:
			var c2 context.CancelFunc
			ctx, c2 = context.WithTimeout(ctx, 5*time.Millisecond)
			defer c2()
		}
		defer cancel()
		et := eventlogger.EventType("U")
		if sameType {
			et = "T"
		}
		second := make(chan struct{})
		go func() {
			defer close(second)
			_, _ = b.Send(ctx, et, "second")
		}()
		select {
		case <-second:
		case <-time.After(3*time.Second + 10*time.Millisecond):
			gs := leak.BlockedInLib(leak.Dump())
			var sb strings.Builder
			for _, g := range gs {
				sb.WriteString(g.Text + "\n\n")
			}
			release()
			settle := make(chan struct{})
			go func() { <-second; wg.Wait(); close(settle) }()
			select { // give the stuck calls a chance to drain so that they do not disturb the next case
			case <-settle:
			case <-time.After(2 * time.Second):
			}
			if len(gs) == 0 {
				fmt.Printf("\nINCONCLUSIVE-MARK second Send late but no library goroutine blocked\n")
				t.Skip("inconclusive")
			}
			t.Fatalf("VIOLATION C03: a Send whose context was cancelled (%s) had not returned 3s later while another Send was in flight\ncase: %s\nblocked library goroutines:\n%s", cancelMode, d, sb.String())
		}
		release()
		done := make(chan struct{})
		go func() { wg.Wait(); close(done) }()
		select {
		case <-done:
		case <-time.After(10 * time.Second):
			gs := leak.BlockedInLib(leak.Dump())
			var sb strings.Builder
			for _, g := range gs {
				sb.WriteString(g.Text + "\n\n")
			}
			if len(gs) == 0 {
				fmt.Printf("\nINCONCLUSIVE-MARK calls late after release but no library goroutine blocked\n")
				t.Skip("inconclusive")
			}
			t.Fatalf("VIOLATION C03: the first Send (context never cancelled) did not return within 10s after all its nodes were released: deadlock\ncase: %s\nblocked library goroutines:\n%s", d, sb.String())
		}
		if firstErr != nil {
			t.Fatalf("VIOLATION C03: the uncancelled Send failed: %v\ncase: %s", firstErr, d)
		}
		var cl []string
		if reentrantWriter {
			cl = append(cl, "node_issues_writing_call")
		}
		cl = append(cl, "cancel="+cancelMode)
		sec.Case(writers >= 1, d, cl...)
	})
}
