package c03

import (
	"context"
	"fmt"
	"sync"
	"sync/atomic"
	"testing"
	"time"

	"github.com/hashicorp/eventlogger"
	"pgregory.net/rapid"
	"verif/harness/internal/simul"
	"verif/harness/internal/stats"
)

const ruleRendezvous = "rapid: 2-4 pipelines [root, waiter, formatter, sink] for one event type; each waiter node, once invoked, waits until the waiter of every other pipeline has been invoked as well (bounded to 10 s, then it goes on); Send is called with a context that is never cancelled, of a drawn flavour (Background, TODO, WithoutCancel of a cancellable parent, WithValue, a WithCancel context nobody cancels, a custom context whose Done() is nil); relies on the documented behaviour that Send writes to all registered pipelines concurrently (non-root nodes run in goroutines of their own); oracle = Send returns, and no waiter had to give up: a Send that keeps a pipeline unstarted while it waits for a node of another pipeline can never return for such nodes (deadlock); non-trivial = always; distinct = configuration"

type neverDone struct{ context.Context }

func (neverDone) Done() <-chan struct{} { return nil }

// TestC03CrossPipelineRendezvous: "after all pipelines finished otherwise; it never deadlocks" for nodes of different
// pipelines that depend on each other.
func TestC03CrossPipelineRendezvous(t *testing.T) {
	sec := stats.Sec("cross_pipeline_rendezvous", ruleRendezvous)
	rapid.Check(t, func(t *rapid.T) {
		np := rapid.IntRange(2, 4).Draw(t, "pipelines")
		kind := rapid.SampledFrom([]string{"Background", "TODO", "WithoutCancel", "WithValue", "WithCancel-never-cancelled", "custom-Done-nil"}).Draw(t, "context")
		d := fmt.Sprintf("pipelines=%d context=%s", np, kind)
		b, _ := eventlogger.NewBroker()
		var arrived, gaveUp atomic.Int64
		all := make(chan struct{})
		var once sync.Once
		for i := 0; i < np; i++ {
			r, w, m, s := simul.New(fmt.Sprintf("r%d", i), eventlogger.NodeTypeFilter), simul.New(fmt.Sprintf("w%d", i), eventlogger.NodeTypeFilter), simul.New(fmt.Sprintf("m%d", i), eventlogger.NodeTypeFormatter), simul.New(fmt.Sprintf("s%d", i), eventlogger.NodeTypeSink)
			w.OnProcess = func() {
				if arrived.Add(1) == int64(np) {
					once.Do(func() { close(all) })
				}
				select {
				case <-all:
				case <-time.After(10 * time.Second):
					gaveUp.Add(1)
				}
			}
			var ids []eventlogger.NodeID
			for _, n := range []*simul.Node{r, w, m, s} {
				_ = b.RegisterNode(eventlogger.NodeID(n.Name), n)
				ids = append(ids, eventlogger.NodeID(n.Name))
			}
			if err := b.RegisterPipeline(eventlogger.Pipeline{PipelineID: eventlogger.PipelineID(fmt.Sprintf("p%d", i)), EventType: "T", NodeIDs: ids}); err != nil {
				t.Fatalf("harness: %v", err)
			}
		}
		var ctx context.Context
		switch kind {
		case "Background":
			ctx = context.Background()
		case "TODO":
			ctx = context.TODO()
		case "WithoutCancel":
			parent, cancel := context.WithCancel(context.Background())
			cancel()
			ctx = context.WithoutCancel(parent)
		case "WithValue":
			ctx = context.WithValue(context.Background(), struct{ k string }{"k"}, 1)
		case "WithCancel-never-cancelled":
			var cancel context.CancelFunc
			ctx, cancel = context.WithCancel(context.Background())
			defer cancel()
		default:
			ctx = neverDone{context.Background()}
		}
		done := make(chan error, 1)
		go func() { _, err := b.Send(ctx, "T", "x"); done <- err }()
		select {
		case err := <-done:
			if n := gaveUp.Load(); n > 0 {
				t.Fatalf("VIOLATION C03: Send (context %s, never cancelled) kept a pipeline unstarted while it waited for a node of another pipeline: %d of %d nodes that wait for their counterparts in the other pipelines gave up after 10s (only %d were ever running together); with nodes that wait indefinitely this Send never returns\ncase: %s", kind, n, np, arrived.Load(), d)
			}
			if err != nil {
				t.Fatalf("VIOLATION C03: Send failed: %v\ncase: %s", err, d)
			}
		case <-time.After(60 * time.Second):
			fmt.Printf("\nINCONCLUSIVE-MARK Send did not return within 60s\n")
			t.Skip("inconclusive")
		}
		sec.Case(true, d, "context="+kind)
	})
}
