package c03

import (
	"context"
	"fmt"
	"strings"
	"sync"
	"sync/atomic"
	"testing"
	"time"

	"github.com/hashicorp/eventlogger"
	"pgregory.net/rapid"
	"verif/harness/internal/leak"
	"verif/harness/internal/simul"
	"verif/harness/internal/stats"
)

const ruleUserCode = "rapid: a Send is in flight (its first node blocks until released); a RegisterPipeline is then started whose node's Type() - user code the library calls during validation - blocks until released too; then the context of the in-flight Send is cancelled (cancel / 5ms timeout); oracle = that Send returns within 3 s of the cancellation although a node is still running and although another call sits in user code (a miss counts only if the goroutine dump shows the Send blocked inside the library), and after the releases every call returns; non-trivial = the registration had entered Type() before the cancellation; distinct = configuration"

// TestC03CancelWhileWriterInUserCode: "promptly after cancellation even if nodes are still running", while another
// Broker call is inside user code.
func TestC03CancelWhileWriterInUserCode(t *testing.T) {
	sec := stats.Sec("cancel_while_writer_in_user_code", ruleUserCode)
	rapid.Check(t, func(t *rapid.T) {
		cancelMode := rapid.SampledFrom([]string{"cancel", "timeout-5ms"}).Draw(t, "cancel")
		sameType := rapid.Bool().Draw(t, "registrationForSameType")
		npipes := rapid.IntRange(1, 3).Draw(t, "pipelines")
		d := fmt.Sprintf("cancel=%s registrationForSameType=%v pipelines=%d", cancelMode, sameType, npipes)
		b, _ := eventlogger.NewBroker()
		gate := make(chan struct{})
		var entered []chan struct{}
		for i := 0; i < npipes; i++ {
			f, m, s := simul.New(fmt.Sprintf("f%d", i), eventlogger.NodeTypeFilter), simul.New(fmt.Sprintf("m%d", i), eventlogger.NodeTypeFormatter), simul.New(fmt.Sprintf("s%d", i), eventlogger.NodeTypeSink)
			// the blocking node is the second one: first nodes are run one after the other
			m.Block = gate
			m.Entered = make(chan struct{}, 4)
			entered = append(entered, m.Entered)
			for _, n := range []*simul.Node{f, m, s} {
				_ = b.RegisterNode(eventlogger.NodeID(n.Name), n)
			}
			if err := b.RegisterPipeline(eventlogger.Pipeline{PipelineID: eventlogger.PipelineID(fmt.Sprintf("p%d", i)), EventType: "T", NodeIDs: []eventlogger.NodeID{eventlogger.NodeID(f.Name), eventlogger.NodeID(m.Name), eventlogger.NodeID(s.Name)}}); err != nil {
				t.Fatalf("harness: %v", err)
			}
		}
		typeGate := make(chan struct{})
		typeEntered := make(chan struct{}, 1)
		var armed atomic.Bool
		xm, xs := simul.New("xm", eventlogger.NodeTypeFormatter), simul.New("xs", eventlogger.NodeTypeSink)
		xm.OnType = func() {
			if armed.CompareAndSwap(true, false) {
				typeEntered <- struct{}{}
				<-typeGate
			}
		}
		_ = b.RegisterNode("xm", xm)
		_ = b.RegisterNode("xs", xs)
		released := false
		release := func() {
			if !released {
				released = true
				close(typeGate)
				close(gate)
			}
		}
		defer release()
		ctx, cancel := context.WithCancel(context.Background())
		defer cancel()
		var wg sync.WaitGroup
		sendDone := make(chan struct{})
		wg.Add(1)
		go func() {
			defer wg.Done()
			defer close(sendDone)
			_, _ = b.Send(ctx, "T", "in-flight")
		}()
		for _, ch := range entered {
			select {
			case <-ch:
			case <-time.After(10 * time.Second):
				fmt.Printf("\nINCONCLUSIVE-MARK the Send never reached its blocking nodes\n")
				t.Skip("inconclusive")
			}
		}
		armed.Store(true)
		wg.Add(1)
		go func() {
			defer wg.Done()
			et := eventlogger.EventType("U")
			if sameType {
				et = "T"
			}
			_ = b.RegisterPipeline(eventlogger.Pipeline{PipelineID: "x", EventType: et, NodeIDs: []eventlogger.NodeID{"xm", "xs"}})
		}()
		inType := false
		select {
		case <-typeEntered:
			inType = true
		case <-time.After(2 * time.Second): // an implementation need not call Type() during RegisterPipeline
		}
		if cancelMode == "cancel" {
			cancel()
		} else {
			tm := time.AfterFunc(5*time.Millisecond, cancel)
			defer tm.Stop()
		}
		select {
		case <-sendDone:
		case <-time.After(3*time.Second + 10*time.Millisecond):
			gs := leak.BlockedInLib(leak.Dump())
			var sb strings.Builder
			sendBlocked := false
			for _, g := range gs {
				if strings.Contains(g.Text, "(*Broker).Send") {
					sendBlocked = true
				}
				sb.WriteString(g.Text + "\n\n")
			}
			release()
			settle := make(chan struct{})
			go func() { wg.Wait(); close(settle) }()
			select {
			case <-settle:
			case <-time.After(2 * time.Second):
			}
			if !sendBlocked {
				fmt.Printf("\nINCONCLUSIVE-MARK Send late but not blocked inside the library\n")
				t.Skip("inconclusive")
			}
			t.Fatalf("VIOLATION C03: a Send whose context was cancelled (%s) had not returned 3s later; its nodes were still running and a RegisterPipeline call was inside a node's Type()\ncase: %s\nblocked library goroutines:\n%s", cancelMode, d, sb.String())
		}
		release()
		done := make(chan struct{})
		go func() { wg.Wait(); close(done) }()
		select {
		case <-done:
		case <-time.After(10 * time.Second):
			gs := leak.BlockedInLib(leak.Dump())
			if len(gs) == 0 {
				fmt.Printf("\nINCONCLUSIVE-MARK calls late after release but no library goroutine blocked\n")
				t.Skip("inconclusive")
			}
			t.Fatalf("VIOLATION C03: calls did not return within 10s after every node and Type() call was released: deadlock\ncase: %s\n%s", d, gs[0].Text)
		}
		sec.Case(inType, d, "cancel="+cancelMode)
	})
}

const ruleRendezvous = "rapid: 2-4 pipelines [root, waiter, formatter, sink] for one event type; each waiter node, once invoked, waits until the waiter of every other pipeline has been invoked as well (bounded to 10 s, then it goes on); Send is called with a context that is never cancelled, of a drawn flavour (Background, TODO, WithoutCancel of a cancellable parent, WithValue, a WithCancel context nobody cancels, a custom context whose Done() is nil); relies on the documented behaviour that Send writes to all registered pipelines concurrently (non-root nodes run in goroutines of their own); oracle = Send returns, and no waiter had to give up: a Send that keeps a pipeline unstarted while it waits for a node of another pipeline can never return for such nodes (deadlock); non-trivial = always; distinct = configuration"

type neverDone struct{ context.Context }

func (neverDone) Done() <-chan struct{} { return nil }

// TestC03CrossPipelineRendezvous: "after all pipelines finished otherwise; it never deadlocks" for nodes of different
// pipelines that depend on each other.
func TestC03CrossPipelineRendezvous(t *testing.T) {
	sec := stats.Sec("cross_pipeline_rendezvous", ruleRendezvous)
	rapid.Check(t, func(t *rapid.T) {
		np := rapid.IntRange(2, 4).Draw(t, "pipelines")
		kind := rapid.SampledFrom([]string{"Background", "TODO", "WithoutCancel", "WithValue", "WithCancel-never-cancelled", "custom-Done-nil"}).Draw(t, "context")
		d := fmt.Sprintf("pipelines=%d context=%s", np, kind)
		b, _ := eventlogger.NewBroker()
		var arrived, gaveUp atomic.Int64
		all := make(chan struct{})
		var once sync.Once
		for i := 0; i < np; i++ {
			r, w, m, s := simul.New(fmt.Sprintf("r%d", i), eventlogger.NodeTypeFilter), simul.New(fmt.Sprintf("w%d", i), eventlogger.NodeTypeFilter), simul.New(fmt.Sprintf("m%d", i), eventlogger.NodeTypeFormatter), simul.New(fmt.Sprintf("s%d", i), eventlogger.NodeTypeSink)
			w.OnProcess = func() {
				if arrived.Add(1) == int64(np) {
					once.Do(func() { close(all) })
				}
				select {
				case <-all:
				case <-time.After(10 * time.Second):
					gaveUp.Add(1)
				}
			}
			var ids []eventlogger.NodeID
			for _, n := range []*simul.Node{r, w, m, s} {
				_ = b.RegisterNode(eventlogger.NodeID(n.Name), n)
				ids = append(ids, eventlogger.NodeID(n.Name))
			}
			if err := b.RegisterPipeline(eventlogger.Pipeline{PipelineID: eventlogger.PipelineID(fmt.Sprintf("p%d", i)), EventType: "T", NodeIDs: ids}); err != nil {
				t.Fatalf("harness: %v", err)
			}
		}
		var ctx context.Context
		switch kind {
		case "Background":
			ctx = context.Background()
		case "TODO":
			ctx = context.TODO()
		case "WithoutCancel":
			parent, cancel := context.WithCancel(context.Background())
			cancel()
			ctx = context.WithoutCancel(parent)
		case "WithValue":
			ctx = context.WithValue(context.Background(), struct{ k string }{"k"}, 1)
		case "WithCancel-never-cancelled":
			var cancel context.CancelFunc
			ctx, cancel = context.WithCancel(context.Background())
			defer cancel()
		default:
			ctx = neverDone{context.Background()}
		}
		done := make(chan error, 1)
		go func() { _, err := b.Send(ctx, "T", "x"); done <- err }()
		select {
		case err := <-done:
			if n := gaveUp.Load(); n > 0 {
				t.Fatalf("VIOLATION C03: Send (context %s, never cancelled) kept a pipeline unstarted while it waited for a node of another pipeline: %d of %d nodes that wait for their counterparts in the other pipelines gave up after 10s (only %d were ever running together); with nodes that wait indefinitely this Send never returns\ncase: %s", kind, n, np, arrived.Load(), d)
			}
			if err != nil {
				t.Fatalf("VIOLATION C03: Send failed: %v\ncase: %s", err, d)
			}
		case <-time.After(60 * time.Second):
			fmt.Printf("\nINCONCLUSIVE-MARK Send did not return within 60s\n")
			t.Skip("inconclusive")
		}
		sec.Case(true, d, "context="+kind)
	})
}
