package c03

import (
	"context"
	"fmt"
	"net/url"
	"os"
	"path/filepath"
	"strings"
	"testing"
	"time"

	"github.com/hashicorp/eventlogger"
	"github.com/hashicorp/eventlogger/formatter_filters/cloudevents"
	"github.com/hashicorp/eventlogger/sinks/channel"
	"github.com/hashicorp/eventlogger/sinks/writer"
	"pgregory.net/rapid"
	"verif/harness/internal/leak"
	"verif/harness/internal/stats"
)

const ruleStock = "rapid: one pipeline built from the library's own nodes in a failing or re-entrant mode - FileSink on /dev/full (every write fails, the retry path runs), FileSink below a regular file, FileSink on a directory that is removed before the Send, writer.Sink with a failing writer, ChannelSink on a full channel with a 5ms timeout, cloudevents formatter whose Signer rotates the signer of its own node - x context live / cancelled before / cancelled 1ms after; 1-3 Sends; oracle = every Send returns within 10s (a miss counts only if the goroutine dump shows a goroutine inside the library); non-trivial = the retry or re-entrant path was taken; distinct = configuration"

type failingWriter struct{}

func (failingWriter) Write(p []byte) (int, error) { return 0, fmt.Errorf("harness writer failed") }

// TestC03StockNodes: Send returns also when the library's own nodes hit their failure paths.
func TestC03StockNodes(t *testing.T) {
	sec := stats.Sec("stock_nodes", ruleStock)
	root, err := os.MkdirTemp("", "verif-c03s-")
	if err != nil {
		t.Skip(err.Error())
	}
	defer os.RemoveAll(root)
	blocker := filepath.Join(root, "blocker")
	_ = os.WriteFile(blocker, []byte("x"), 0o600)
	caseNo := 0
	rapid.Check(t, func(t *rapid.T) {
		caseNo++
		kind := rapid.SampledFrom([]string{"filesink-devfull", "filesink-uncreatable", "filesink-dir-removed", "writer-failing", "channel-full", "cloudevents-signer-rotates"}).Draw(t, "kind")
		if _, err := os.Stat("/dev/full"); err != nil && kind == "filesink-devfull" {
			kind = "filesink-uncreatable"
		}
		cancelMode := rapid.SampledFrom([]string{"never", "never", "before", "after-1ms"}).Draw(t, "cancel")
		sends := rapid.IntRange(1, 3).Draw(t, "sends")
		d := fmt.Sprintf("kind=%s cancel=%s sends=%d", kind, cancelMode, sends)
		b, _ := eventlogger.NewBroker()
		var fm eventlogger.Node = &eventlogger.JSONFormatter{}
		var sink eventlogger.Node
		dir := filepath.Join(root, fmt.Sprintf("c%d", caseNo))
		switch kind {
		case "filesink-devfull":
			sink = &eventlogger.FileSink{Path: "/dev", FileName: "full"}
		case "filesink-uncreatable":
			sink = &eventlogger.FileSink{Path: filepath.Join(blocker, "sub"), FileName: "x.log"}
		case "filesink-dir-removed":
			fs := &eventlogger.FileSink{Path: dir, FileName: "x.log"}
			_, _ = fs.Process(context.Background(), &eventlogger.Event{Formatted: map[string][]byte{eventlogger.JSONFormat: []byte("first\n")}})
			_ = os.RemoveAll(dir)
			sink = fs
		case "writer-failing":
			sink = &writer.Sink{Writer: failingWriter{}}
		case "channel-full":
			ch := make(chan *eventlogger.Event)
			sink, _ = channel.NewChannelSink(ch, 5*time.Millisecond)
		case "cloudevents-signer-rotates":
			src, _ := url.Parse("https://example.test/src")
			cf := &cloudevents.FormatterFilter{Source: src, Format: cloudevents.FormatJSON, SignEventTypes: []string{"T"}}
			n := 0
			cf.Signer = func(_ context.Context, b []byte) (string, error) {
				n++
				k := n
				// a limited-use key installs its successor
				_ = cf.Rotate(func(_ context.Context, b []byte) (string, error) { return fmt.Sprintf("sig-gen%d-%d", k, len(b)), nil })
				return fmt.Sprintf("sig-first-%d", len(b)), nil
			}
			fm = cf
			sink = &writer.Sink{Format: string(cloudevents.FormatJSON), Writer: &strings.Builder{}}
		}
		_ = b.RegisterNode("m", fm)
		_ = b.RegisterNode("s", sink)
		if err := b.RegisterPipeline(eventlogger.Pipeline{PipelineID: "p", EventType: "T", NodeIDs: []eventlogger.NodeID{"m", "s"}}); err != nil {
			t.Fatalf("harness: %v", err)
		}
		for i := 0; i < sends; i++ {
			ctx, cancel := context.WithCancel(context.Background())
			switch cancelMode {
			case "before":
				cancel()
			case "after-1ms":
				tm := time.AfterFunc(time.Millisecond, cancel)
				defer tm.Stop()
			}
			done := make(chan struct{})
			go func() {
				defer close(done)
				_, _ = b.Send(ctx, "T", map[string]interface{}{"i": i})
			}()
			select {
			case <-done:
				cancel()
			case <-time.After(10 * time.Second):
				cancel()
				gs := leak.BlockedInLib(leak.Dump())
				if len(gs) == 0 {
					fmt.Printf("\nINCONCLUSIVE-MARK stock-node Send late but no library goroutine is blocked\n")
					t.Skip("inconclusive")
				}
				var sb strings.Builder
				for _, g := range gs {
					sb.WriteString(g.Text + "\n\n")
				}
				t.Fatalf("VIOLATION C03: Send #%d did not return within 10s\ncase: %s\nblocked library goroutines:\n%s", i, d, sb.String())
			}
		}
		sec.Case(kind == "filesink-devfull" || kind == "cloudevents-signer-rotates" || kind == "filesink-dir-removed", d, "kind="+kind)
	})
}
