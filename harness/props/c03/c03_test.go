// C03 — Send always returns and leaves no goroutine behind, whatever the cancel point.
package c03

import (
	"context"
	"fmt"
	"math"
	"sort"
	"strings"
	"sync"
	"testing"
	"time"

	"github.com/hashicorp/eventlogger"
	"pgregory.net/rapid"
	"verif/harness/internal/bgen"
	"verif/harness/internal/leak"
	"verif/harness/internal/model"
	"verif/harness/internal/nodes"
	"verif/harness/internal/sched"
	"verif/harness/internal/stats"
)

func TestMain(m *testing.M) {
	_ = time.Local.String()
	stats.Main(m, "C03")
}

const rule = "rapid: 1-3 pipelines x 2-4 scripted nodes; a drawn subset of nodes blocks until the harness releases them in a drawn order; the context is never cancelled / cancelled before the call / cancelled by the hook at a drawn protocol point / cancelled by the harness after k releases while nodes are still blocked; oracle = Send returns (live: after all nodes; cancelled: within 5s while nodes stay blocked), afterwards no graph.process/doProcess goroutine remains (goroutine dump), hook trace obeys the protocol grammar; non-trivial = cancel issued while >=1 node was blocked or landed on node.returned/status.send, with >=2 pipelines; distinct = case descriptor"

const (
	promptBound = 5 * time.Second
	liveBound   = 10 * time.Second
)

var (
	taintMu sync.Mutex
	tainted = map[string]bool{} // goroutine headers ("goroutine N") already reported as leaked
)

type sendPlan struct {
	S           *bgen.SendStep
	BlockIDs    []string
	Mode        int // 0 never, 1 before, 2 hook, 3 harness cancel after k releases
	CancelAfter int
	Picks       []int
	Linger      []int // µs to wait before each release, lets more nodes reach their block
}

func (p *sendPlan) String() string {
	m := [...]string{"never", "before", "hook@" + p.S.CancelPoint + fmt.Sprintf("#%d", p.S.CancelOcc), fmt.Sprintf("harness-after-%d-releases", p.CancelAfter)}[p.Mode]
	b := append([]string(nil), p.BlockIDs...)
	sort.Strings(b)
	var ks []string
	for k, v := range p.S.Script {
		if v != nodes.Pass {
			ks = append(ks, k+"="+v.String())
		}
	}
	sort.Strings(ks)
	return fmt.Sprintf("Send(%s,{%s},block=[%s],cancel=%s,picks=%v)", p.S.ET, strings.Join(ks, ","), strings.Join(b, " "), m, p.Picks)
}

type tracker struct {
	mu      sync.Mutex
	blocked []*nodes.N // entered and waiting (by instance; a node may appear several times)
}

func libLeftovers(d time.Duration) []leak.G {
	deadline := time.Now().Add(d)
	sleep := 50 * time.Microsecond
	for {
		var left []leak.G
		for _, g := range leak.With(leak.Dump(), "(*graph).process", "(*graph).doProcess") {
			h := strings.SplitN(g.Header, " [", 2)[0]
			taintMu.Lock()
			t := tainted[h]
			taintMu.Unlock()
			if !t {
				left = append(left, g)
			}
		}
		if len(left) == 0 {
			return nil
		}
		if time.Now().After(deadline) {
			return left
		}
		time.Sleep(sleep)
		if sleep < 10*time.Millisecond {
			sleep *= 2
		}
	}
}

func taint(gs []leak.G) string {
	var sb strings.Builder
	taintMu.Lock()
	for _, g := range gs {
		tainted[strings.SplitN(g.Header, " [", 2)[0]] = true
		sb.WriteString(g.Text)
		sb.WriteString("\n\n")
	}
	taintMu.Unlock()
	return sb.String()
}

// runSend executes one planned Send. Returns (violation, inconclusive, nontrivial, classes).
func runSend(x *model.Exec, p *sendPlan) (string, string, bool, []string) {
	traceMsg := ""
	script := bgen.ScriptFor(x, p.S.Script)
	lin := x.NewSend(script)
	exp := x.Expect(p.S.ET, lin)
	lin.Block = map[*nodes.N]chan struct{}{}
	blockSet := map[string]bool{}
	for _, id := range p.BlockIDs {
		blockSet[id] = true
	}
	for _, n := range x.All {
		if blockSet[n.ID] {
			lin.Block[n] = make(chan struct{})
		}
	}
	tr := &tracker{}
	lin.Enter = func(n *nodes.N) {
		if _, ok := lin.Block[n]; ok {
			tr.mu.Lock()
			tr.blocked = append(tr.blocked, n)
			tr.mu.Unlock()
		}
	}
	x.W.Reset()
	plan := sched.Plan{Actions: p.S.Actions, CancelHit: -1, WantGoid: true}
	if p.Mode == 2 {
		plan.CancelPoint, plan.CancelOcc = p.S.CancelPoint, p.S.CancelOcc
	}
	ctx, cancel, ctl := sched.With(context.Background(), plan)
	defer cancel()
	if p.Mode == 1 {
		cancel()
	}
	done := make(chan struct{})
	go func() {
		defer close(done)
		_, _ = x.B.Send(ctx, eventlogger.EventType(p.S.ET), lin)
	}()
	released := map[*nodes.N]bool{}
	releaseAll := func() {
		for n, ch := range lin.Block {
			if !released[n] {
				released[n] = true
				close(ch)
			}
		}
	}
	defer releaseAll()
	nextBlocked := func() []*nodes.N {
		tr.mu.Lock()
		defer tr.mu.Unlock()
		var out []*nodes.N
		seen := map[*nodes.N]bool{}
		for _, n := range tr.blocked {
			if !released[n] && !seen[n] {
				seen[n] = true
				out = append(out, n)
			}
		}
		return out
	}
	hang := func(what string) (string, string) {
		gs := leak.Dump()
		bl := leak.BlockedInLib(gs)
		if len(bl) == 0 {
			return "", "watchdog: " + what + " but no library goroutine is blocked"
		}
		return fmt.Sprintf("%s; blocked library goroutines:\n%s", what, taint(bl)), ""
	}
	waitDone := func(d time.Duration) bool {
		select {
		case <-done:
			return true
		case <-time.After(d):
			return false
		}
	}
	cancelled := p.Mode == 1
	cancelWhileBlocked := false
	releases := 0
	start := time.Now()
	returned := false
	for !returned {
		select {
		case <-done:
			returned = true
			continue
		default:
		}
		_, at := ctl.Snapshot()
		if at != "" && !cancelled {
			cancelled = true
			if len(nextBlocked()) > 0 {
				cancelWhileBlocked = true
			}
		}
		if cancelled {
			// Send must return promptly although nodes may still be blocked: release nothing
			if !waitDone(promptBound) {
				v, inc := hang(fmt.Sprintf("Send did not return within %s after its context was cancelled", promptBound))
				return v, inc, false, nil
			}
			returned = true
			continue
		}
		b := nextBlocked()
		if len(b) == 0 {
			if time.Since(start) > liveBound {
				v, inc := hang(fmt.Sprintf("Send (live context, nothing blocked) did not return within %s", liveBound))
				return v, inc, false, nil
			}
			time.Sleep(20 * time.Microsecond)
			continue
		}
		if p.Mode == 3 && releases == p.CancelAfter {
			cancelWhileBlocked = true
			cancelled = true
			cancel()
			continue
		}
		if releases < len(p.Linger) && p.Linger[releases] > 0 {
			time.Sleep(time.Duration(p.Linger[releases]) * time.Microsecond)
			b = nextBlocked()
		}
		pick := 0
		if releases < len(p.Picks) {
			pick = p.Picks[releases] % len(b)
		}
		released[b[pick]] = true
		close(lin.Block[b[pick]])
		releases++
		start = time.Now()
	}
	// Send has returned.
	hits, at := ctl.Snapshot()
	live := !cancelled && at == ""
	if live {
		// after all pipelines finished: nothing may still be running or unvisited
		expN := 0
		for _, t := range exp {
			expN += len(t.Calls)
		}
		if got := len(x.W.Calls()); got != expN || x.W.Running.Load() != 0 {
			return fmt.Sprintf("live context: Send returned before all pipelines finished (%d of %d node invocations done, %d still running)", got, expN, x.W.Running.Load()), "", false, nil
		}
	}
	releaseAll()
	// once every started node invocation has returned, no goroutine of this Send remains
	if len(hits) > 0 {
		if left := libLeftovers(promptBound); len(left) > 0 {
			return fmt.Sprintf("goroutines of a finished Send are still alive %s after all nodes returned:\n%s", promptBound, taint(left)), "", false, nil
		}
		hits, _ = ctl.Snapshot()
		traceMsg = checkTrace(hits)
	}
	var classes []string
	if traceMsg != "" {
		// the hook trace does not follow the shape of the pinned implementation: recorded, never a violation
		// (the statement constrains what Send does for its caller, not how its goroutines are organised)
		classes = append(classes, "trace_shape_differs_from_pinned_implementation")
	}
	classes = append(classes, [...]string{"cancel=never", "cancel=before", "cancel=hook", "cancel=harness"}[p.Mode])
	if at != "" {
		classes = append(classes, "cancel_landed@"+at)
	}
	if cancelWhileBlocked {
		classes = append(classes, "cancel_while_node_blocked")
	}
	if releases > 0 {
		classes = append(classes, "blocking_nodes_released")
	}
	if len(exp) == 0 {
		classes = append(classes, "no_pipeline_for_type")
	}
	if len(exp) >= 2 {
		classes = append(classes, "multi_pipeline")
	}
	nt := len(exp) >= 2 && (cancelWhileBlocked || at == "node.returned" || at == "status.send")
	return "", "", nt, classes
}

// checkTrace validates the hook trace of a finished Send against the protocol grammar.
func checkTrace(hits []sched.Hit) string {
	closeSeq, exitSeq := -1, -1
	perG := map[int64][]string{}
	var order []int64
	for _, h := range hits {
		switch h.Point {
		case "range.close":
			if closeSeq >= 0 {
				return "status channel closed twice"
			}
			closeSeq = h.Seq
		case "range.exit":
			exitSeq = h.Seq
		case "collect.select":
			continue
		}
		if _, ok := perG[h.G]; !ok {
			order = append(order, h.G)
		}
		perG[h.G] = append(perG[h.G], h.Point)
	}
	if closeSeq < 0 || exitSeq < 0 {
		return "range goroutine never closed the status channel"
	}
	for _, h := range hits {
		if (h.Point == "node.exit" || h.Point == "node.enter" || h.Point == "status.send" || h.Point == "child.spawn") && h.Seq > closeSeq {
			return fmt.Sprintf("%s after the status channel was closed", h.Point)
		}
	}
	for _, g := range order {
		seq := perG[g]
		i := 0
		isRange := false
		for i < len(seq) {
			switch seq[i] {
			case "range.root":
				isRange = true
				i++
				continue
			case "range.wait":
				if i+3 != len(seq) || seq[i+1] != "range.close" || seq[i+2] != "range.exit" {
					return fmt.Sprintf("range goroutine tail %v", seq[i:])
				}
				i = len(seq)
				continue
			case "node.enter":
				j := i + 1
				if j >= len(seq) || seq[j] != "node.returned" {
					return fmt.Sprintf("node.enter not followed by node.returned: %v", seq)
				}
				j++
				switch {
				case j < len(seq) && seq[j] == "status.send":
					j++
				case j < len(seq) && seq[j] == "child.spawn":
					for j < len(seq) && seq[j] == "child.spawn" {
						j++
					}
				default:
					return fmt.Sprintf("node returned but neither reported a status nor spawned children: %v", seq)
				}
				if j >= len(seq) || seq[j] != "node.exit" {
					return fmt.Sprintf("missing node.exit: %v", seq)
				}
				i = j + 1
				if !isRange && i != len(seq) {
					return fmt.Sprintf("child goroutine processed more than one node: %v", seq)
				}
			default:
				return fmt.Sprintf("unexpected %s in %v", seq[i], seq)
			}
		}
	}
	return ""
}

func TestC03Returns(t *testing.T) {
	sec := stats.Sec("returns", rule)
	rapid.Check(t, func(t *rapid.T) {
		x := model.NewExec()
		var hist []string
		for _, op := range bgen.Setup(t) {
			x.Apply(op)
			if op.SinkRet {
				hist = append(hist, op.String())
			}
		}
		np := rapid.IntRange(1, 3).Draw(t, "pipelines")
		for i := 0; i < np; i++ {
			op := bgen.GenRegPipe(t, false)
			op.ET = rapid.SampledFrom([]string{"A", "A", "A", "A", "A", "B"}).Draw(t, "et")
			op.Pol = 0
			op.P = bgen.PipeIDs[i]
			x.Apply(op)
			hist = append(hist, op.String())
		}
		// registry churn before the Sends: pipelines removed (once, twice), registered again, overwritten - whatever
		// the registry remembers about them, every later Send must return and leave nothing behind
		for i, n := 0, rapid.IntRange(0, 3).Draw(t, "churn"); i < n; i++ {
			ps := x.PipesOf("A")
			if len(ps) == 0 {
				break
			}
			p := ps[rapid.IntRange(0, len(ps)-1).Draw(t, "churnWhich")]
			def := model.Op{K: "regpipe", ET: "A", P: string(p.Key.P), IDs: append([]string(nil), p.IDs...)}
			rm := model.Op{K: "rmpipe", ET: "A", P: string(p.Key.P)}
			var seq []model.Op
			switch rapid.IntRange(0, 3).Draw(t, "churnKind") {
			case 0:
				seq = []model.Op{rm, def}
			case 1:
				seq = []model.Op{rm, rm, def}
			case 2:
				seq = []model.Op{def}
			default:
				seq = []model.Op{rm, rm}
			}
			for _, op := range seq {
				x.Apply(op)
				hist = append(hist, op.String())
			}
		}
		usedSet := map[string]bool{}
		for _, p := range x.PipesOf("A") {
			for _, id := range p.IDs {
				usedSet[id] = true
			}
		}
		used := []string{"f0"}
		for id := range usedSet {
			used = append(used, id)
		}
		sort.Strings(used)
		// registry and threshold calls made before the Sends, among them calls that fail and calls made with a
		// context that is already done: whatever they did, every later Send must still return
		for i, n := 0, rapid.IntRange(0, 3).Draw(t, "preCalls"); i < n; i++ {
			var op model.Op
			switch rapid.SampledFrom([]string{"thr", "thrsinks", "rpan-done", "rmnode-done", "rpan-unknown"}).Draw(t, "preCall") {
			case "thr":
				op = model.Op{K: "thr", ET: "A", V: rapid.SampledFrom([]int{0, 1, 3, math.MaxInt, 1 << 44, -1}).Draw(t, "thrV")}
			case "thrsinks":
				op = model.Op{K: "thrsinks", ET: "A", V: rapid.SampledFrom([]int{0, 1, 3, math.MaxInt, 1 << 44, -1}).Draw(t, "thrSV")}
			case "rpan-done":
				op = model.Op{K: "rpan", ET: "B", P: rapid.SampledFrom(bgen.PipeIDs).Draw(t, "rpanP"), CtxDone: true}
			case "rmnode-done":
				op = model.Op{K: "rmnode", N: "unused-node", CtxDone: true}
			case "rpan-unknown":
				op = model.Op{K: "rpan", ET: "Z", P: "nope", CtxDone: rapid.Bool().Draw(t, "unkDone")}
			}
			done := make(chan struct{})
			go func() { defer close(done); x.Apply(op) }()
			select {
			case <-done:
			case <-time.After(10 * time.Second):
				t.Fatalf("VIOLATION C03: %s did not return within 10s\nhistory: %s", op, strings.Join(hist, "; "))
			}
			hist = append(hist, op.String())
		}
		ns := rapid.IntRange(1, 3).Draw(t, "sends")
		for i := 0; i < ns; i++ {
			s := bgen.GenSend(t, false, 0)
			s.ET = rapid.SampledFrom([]string{"A", "A", "A", "A", "A", "A", "A", "A", "A", "B", "Z"}).Draw(t, "sendET2")
			if rapid.IntRange(0, 9).Draw(t, "unknownType2") == 0 {
				// a type nothing is registered for, of unusual length or encoding: Send must fail cleanly, not panic
				s.ET = rapid.SampledFrom(bgen.UnknownTypes).Draw(t, "unknownET2")
			}
			p := &sendPlan{S: s}
			p.BlockIDs = rapid.SliceOfNDistinct(rapid.SampledFrom(used), 0, 4, rapid.ID[string]).Draw(t, "block")
			p.Mode = rapid.SampledFrom([]int{0, 0, 1, 2, 2, 2, 3, 3, 3}).Draw(t, "mode")
			if p.Mode == 2 {
				s.Ctx = 2
				s.CancelPoint = rapid.SampledFrom(sched.Points).Draw(t, "cancelPoint")
				s.CancelOcc = rapid.SampledFrom([]int{0, 0, 0, 1, 1, 2, 3, 5}).Draw(t, "cancelOcc")
			}
			p.CancelAfter = rapid.SampledFrom([]int{0, 0, 0, 1, 1, 2}).Draw(t, "cancelAfter")
			if p.Mode == 3 && len(p.BlockIDs) <= p.CancelAfter {
				p.BlockIDs = append([]string(nil), used...)
			}
			p.Picks = rapid.SliceOfN(rapid.IntRange(0, 3), 0, 6).Draw(t, "picks")
			p.Linger = rapid.SliceOfN(rapid.SampledFrom([]int{0, 0, 50, 200}), 0, 4).Draw(t, "linger")
			hist = append(hist, p.String())
			v, inc, nt, classes := runSend(x, p)
			if v != "" {
				t.Fatalf("VIOLATION C03: %s\nhistory: %s", v, strings.Join(hist, "; "))
			}
			if inc != "" {
				fmt.Printf("\nINCONCLUSIVE-MARK %s\n", inc)
				t.Skip(inc)
			}
			sec.Case(nt, strings.Join(hist, "; "), classes...)
		}
	})
}
