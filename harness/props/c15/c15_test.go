// C15 — FileSink rotation triggers, naming and retention follow the configuration.
package c15

import (
	"fmt"
	"syscall"
	"testing"

	"pgregory.net/rapid"
	"verif/harness/internal/fsx"
	"verif/harness/internal/stats"
)

func TestMain(m *testing.M) {
	syscall.Umask(0o077) // restrictive umask: a configured Mode only materialises through the sink's own chmod
	stats.Main(m, "C15")
}

const rule = "rapid: FileSink configurations (MaxBytes 0..300, MaxFiles 0..3, MaxDuration 0/30ms, TimestampOnlyOnRotate, Mode, 4 file names, nested directory) x sequences of write(1..200 bytes)/Reopen/external rename/pause/foreign file; after every step: rotation happened iff bytes-since-open >= MaxBytes or age > MaxDuration (age only where the measured interval makes it certain), names, strictly increasing timestamps, file mode, <= MaxFiles newest rotated files right after a rotation, active/renamed/foreign files never removed; non-trivial = a rotation pruned something or was decided at bytes-since-open == MaxBytes exactly; distinct = case descriptor"

func TestC15Rotation(t *testing.T) {
	sec := stats.Sec("rotation", rule)
	maxOps := stats.EnvInt("C15_MAXOPS", 25)
	rapid.Check(t, func(t *rapid.T) {
		c := fsx.GenCfg(t)
		ops := fsx.GenOps(t, maxOps, c.MaxDurMs > 0)
		v, r, _ := fsx.RunSeq(c, ops)
		if v != nil && v.Prop == "infra" {
			t.Skip(v.Msg)
		}
		if v != nil && v.Prop == "C15" {
			t.Fatalf("VIOLATION C15: %s\ncase: %s", v.Msg, fsx.Describe(c, ops))
		}
		if r == nil {
			return
		}
		s := r.Sum
		var cl []string
		if s.Rotations > 0 {
			cl = append(cl, "rotation")
		}
		if s.SizeRotations > 0 {
			cl = append(cl, "size_rotation")
		}
		if s.TimeRotations > 0 {
			cl = append(cl, "time_rotation")
		}
		if s.CertainTimeRot > 0 {
			cl = append(cl, "time_rotation_certain")
		}
		if s.CertainTimeNoRot > 0 {
			cl = append(cl, "time_no_rotation_certain")
		}
		if s.UncertainTime > 0 {
			cl = append(cl, "time_uncertain_step")
		}
		if s.Pruned > 0 {
			cl = append(cl, "pruned")
		}
		if s.Boundary > 0 {
			cl = append(cl, "boundary_bytes_eq_maxbytes")
		}
		if s.Renames > 0 {
			cl = append(cl, "external_rename")
		}
		if s.Reopens > 0 {
			cl = append(cl, "reopen")
		}
		if s.PrunedOutsideRotation > 0 {
			cl = append(cl, "pruned_outside_rotation")
		}
		if s.Wipes > 0 {
			cl = append(cl, "directory_removed_then_reopen")
		}
		if s.Restarts > 0 {
			cl = append(cl, "restart_new_sink_value")
		}
		if s.Touches > 0 {
			cl = append(cl, "old_rotated_file_touched")
		}
		if v != nil {
			cl = append(cl, "other_property_violation_"+v.Prop)
		}
		sec.Case(s.Pruned > 0 || s.Boundary > 0, fsx.Describe(c, ops)+fmt.Sprintf(" => rotations=%d pruned=%d", s.Rotations, s.Pruned), cl...)
	})
}
