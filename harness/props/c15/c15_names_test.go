package c15

import (
	"context"
	"encoding/binary"
	"fmt"
	"os"
	"path/filepath"
	"strconv"
	"strings"
	"sync"
	"syscall"
	"testing"

	"github.com/hashicorp/eventlogger"
	"pgregory.net/rapid"
	"verif/harness/internal/stats"
)

const ruleNames = "rapid: one FileSink (MaxBytes 1 or 40, TimestampOnlyOnRotate on/off, no retention limit) written to by 4-16 goroutines, 20-60 events each, so that nearly every write rotates; an inotify watch on the directory records, in the order the kernel saw them, the names of the files that are created in or renamed into it; oracle = the timestamps of the sink's timestamped file names strictly increase in the order in which the files appeared; non-trivial = at least 20 timestamped files appeared; distinct = configuration"

// dirWatch records the names of files that appear in a directory, in kernel order.
type dirWatch struct {
	fd    int
	names []string
	lost  bool
}

func newDirWatch(dir string) (*dirWatch, error) {
	fd, err := syscall.InotifyInit1(syscall.IN_NONBLOCK | syscall.IN_CLOEXEC)
	if err != nil {
		return nil, err
	}
	if _, err := syscall.InotifyAddWatch(fd, dir, syscall.IN_CREATE|syscall.IN_MOVED_TO); err != nil {
		syscall.Close(fd)
		return nil, err
	}
	return &dirWatch{fd: fd}, nil
}

func (w *dirWatch) drain() {
	buf := make([]byte, 1<<16)
	for {
		n, err := syscall.Read(w.fd, buf)
		if n <= 0 || err != nil {
			return
		}
		for off := 0; off+syscall.SizeofInotifyEvent <= n; {
			mask := binary.LittleEndian.Uint32(buf[off+4:])
			nameLen := int(binary.LittleEndian.Uint32(buf[off+12:]))
			name := strings.TrimRight(string(buf[off+syscall.SizeofInotifyEvent:off+syscall.SizeofInotifyEvent+nameLen]), "\x00")
			off += syscall.SizeofInotifyEvent + nameLen
			if mask&syscall.IN_Q_OVERFLOW != 0 {
				w.lost = true
				continue
			}
			w.names = append(w.names, name)
		}
	}
}

// TestC15ConcurrentNames: "Rotated files carry the base name plus a strictly increasing timestamp", with writers
// that compete for the sink.
func TestC15ConcurrentNames(t *testing.T) {
	sec := stats.Sec("concurrent_names", ruleNames)
	root, err := os.MkdirTemp("", "verif-c15n-")
	if err != nil {
		t.Skip(err.Error())
	}
	defer os.RemoveAll(root)
	caseNo := 0
	rapid.Check(t, func(t *rapid.T) {
		caseNo++
		writers := rapid.IntRange(4, 16).Draw(t, "writers")
		per := rapid.IntRange(20, 60).Draw(t, "eventsPerWriter")
		maxBytes := rapid.SampledFrom([]int{1, 40}).Draw(t, "maxBytes")
		onlyOnRotate := rapid.Bool().Draw(t, "timestampOnlyOnRotate")
		d := fmt.Sprintf("writers=%d events=%d maxBytes=%d timestampOnlyOnRotate=%v", writers, per, maxBytes, onlyOnRotate)
		dir := filepath.Join(root, fmt.Sprintf("c%d", caseNo))
		if err := os.MkdirAll(dir, 0o700); err != nil {
			t.Skip(err.Error())
		}
		defer os.RemoveAll(dir)
		w, err := newDirWatch(dir)
		if err != nil {
			fmt.Printf("\nINCONCLUSIVE-MARK inotify not available: %v\n", err)
			t.Skip("inconclusive")
		}
		defer syscall.Close(w.fd)
		fs := &eventlogger.FileSink{Path: dir, FileName: "audit.log", Format: "f", MaxBytes: maxBytes, TimestampOnlyOnRotate: onlyOnRotate}
		var wg sync.WaitGroup
		stop := make(chan struct{})
		drained := make(chan struct{})
		go func() { // keep the kernel queue short
			defer close(drained)
			for {
				w.drain()
				select {
				case <-stop:
					w.drain()
					return
				default:
				}
			}
		}()
		for g := 0; g < writers; g++ {
			wg.Add(1)
			go func(g int) {
				defer wg.Done()
				for i := 0; i < per; i++ {
					e := &eventlogger.Event{Type: "t", Formatted: map[string][]byte{"f": []byte(fmt.Sprintf("w%02d-%04d\n", g, i))}}
					_, _ = fs.Process(context.Background(), e)
				}
			}(g)
		}
		wg.Wait()
		close(stop)
		<-drained
		if w.lost {
			fmt.Printf("\nINCONCLUSIVE-MARK inotify queue overflow\n")
			t.Skip("inconclusive")
		}
		var last int64 = -1
		lastName := ""
		n := 0
		for _, name := range w.names {
			if !strings.HasPrefix(name, "audit-") || !strings.HasSuffix(name, ".log") {
				continue
			}
			ts, err := strconv.ParseInt(name[len("audit-"):len(name)-len(".log")], 10, 64)
			if err != nil {
				continue
			}
			n++
			if ts <= last {
				t.Fatalf("VIOLATION C15: the file %s appeared after %s: the timestamps of the sink's files do not strictly increase in the order in which the files came into being (%d files so far)\ncase: %s", name, lastName, n, d)
			}
			last, lastName = ts, name
		}
		sec.Case(n >= 20, d, fmt.Sprintf("timestampOnlyOnRotate=%v", onlyOnRotate))
	})
}
