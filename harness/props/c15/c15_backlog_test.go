package c15

import (
	"context"
	"fmt"
	"os"
	"path/filepath"
	"sort"
	"strings"
	"testing"

	"github.com/hashicorp/eventlogger"
	"verif/harness/internal/stats"
)

const ruleBacklog = "enumeration: a log directory that already holds N rotated files of the sink (N in {0, 40, 1023, 1024, 1025, 1500, 3000}, increasing timestamps) plus five foreign files, x MaxFiles in {1, 3, 2000} x TimestampOnlyOnRotate; a FileSink with MaxBytes=1 then writes three events (two rotations); oracle = right after, at most MaxFiles rotated files remain and they are the newest by timestamp, nothing else was removed (foreign files stay), and the three events are on disk unless the limit took them; non-trivial = N > MaxFiles and N >= 1000; distinct = configuration"

// TestC15PruneBacklog: "right after each rotation at most MaxFiles rotated files remain, namely the newest", with a large backlog.
func TestC15PruneBacklog(t *testing.T) {
	sec := stats.Sec("prune_backlog", ruleBacklog)
	root, err := os.MkdirTemp("", "verif-c15b-")
	if err != nil {
		t.Skip(err.Error())
	}
	defer os.RemoveAll(root)
	caseNo := 0
	for _, n := range []int{0, 40, 1023, 1024, 1025, 1500, 3000} {
		for _, mf := range []int{1, 3, 2000} {
			for _, tsOnly := range []bool{true, false} {
				caseNo++
				d := fmt.Sprintf("backlog=%d MaxFiles=%d timestampOnlyOnRotate=%v", n, mf, tsOnly)
				dir := filepath.Join(root, fmt.Sprintf("c%d", caseNo))
				_ = os.MkdirAll(dir, 0o700)
				for i := 0; i < n; i++ {
					// old files: timestamps far in the past, strictly increasing
					_ = os.WriteFile(filepath.Join(dir, fmt.Sprintf("ev-%d.log", 1000000000000000000+int64(i)*1000)), []byte("old\n"), 0o600)
				}
				foreign := []string{"other.log", "ev.txt", "ev-notes.md", "evx-1000000000000000005.log", "README"}
				for _, f := range foreign {
					_ = os.WriteFile(filepath.Join(dir, f), []byte("foreign\n"), 0o600)
				}
				fs := &eventlogger.FileSink{Path: dir, FileName: "ev.log", Format: "f", MaxBytes: 1, MaxFiles: mf, TimestampOnlyOnRotate: tsOnly}
				fail := func(msg string) {
					stats.Violation("TestC15PruneBacklog", map[string]interface{}{"case": d, "message": msg})
					t.Fatalf("VIOLATION C15: %s\ncase: %s", msg, d)
				}
				for k := 0; k < 3; k++ {
					if _, err := fs.Process(context.Background(), &eventlogger.Event{Type: "t", Formatted: map[string][]byte{"f": []byte(fmt.Sprintf("new-%d\n", k))}}); err != nil {
						fail(fmt.Sprintf("write %d failed: %v", k, err))
					}
				}
				ents, _ := os.ReadDir(dir)
				var rotated []string
				have := map[string]bool{}
				for _, e := range ents {
					have[e.Name()] = true
					if strings.HasPrefix(e.Name(), "ev-") && strings.HasSuffix(e.Name(), ".log") {
						mid := e.Name()[3 : len(e.Name())-4]
						if mid != "" && strings.Trim(mid, "0123456789") == "" {
							rotated = append(rotated, e.Name())
						}
					}
				}
				for _, f := range foreign {
					if !have[f] {
						fail(fmt.Sprintf("the foreign file %s was removed", f))
					}
				}
				sort.Slice(rotated, func(i, j int) bool {
					a, b := rotated[i], rotated[j]
					if len(a) != len(b) {
						return len(a) < len(b)
					}
					return a < b
				})
				// in timestamped mode the active file matches the pattern too and is not a rotated file
				active := 0
				if !tsOnly {
					active = 1
				}
				if len(rotated)-active > mf {
					fail(fmt.Sprintf("%d rotated files remain right after a rotation, MaxFiles=%d (the directory held %d before)", len(rotated)-active, mf, n))
				}
				total := n + 2 // two rotations happened
				if want := min(mf, total); len(rotated)-active < want {
					fail(fmt.Sprintf("retention removed too much: %d rotated files remain, %d existed, MaxFiles=%d", len(rotated)-active, total, mf))
				}
				// the survivors are the newest: no backlog file may survive while a newer backlog file is gone
				oldestKept := ""
				for _, r := range rotated {
					if strings.HasPrefix(r, "ev-10000000000") {
						oldestKept = r
						break
					}
				}
				if oldestKept != "" {
					var idx int64
					fmt.Sscanf(oldestKept, "ev-%d.log", &idx)
					for i := (idx-1000000000000000000)/1000 + 1; i < int64(n); i++ {
						if !have[fmt.Sprintf("ev-%d.log", 1000000000000000000+i*1000)] {
							fail(fmt.Sprintf("the old file %s was kept while the newer file with index %d was removed: not the newest remain", oldestKept, i))
						}
					}
				}
				_ = os.RemoveAll(dir)
				sec.Case(n > mf && n >= 1000, d, fmt.Sprintf("MaxFiles=%d", mf))
			}
		}
	}
}
