// C14 — JSON formatters emit one faithful JSON line and never alter the event.
package c14

import (
	"bytes"
	"context"
	"encoding/json"
	"errors"
	"fmt"
	"reflect"
	"sort"
	"strings"
	"sync"
	"testing"
	"time"
	"unicode/utf8"

	"github.com/hashicorp/eventlogger"
	"pgregory.net/rapid"
	"verif/harness/internal/jsonval"
	"verif/harness/internal/stats"
)

func TestMain(m *testing.M) { stats.Main(m, "C14") }

const ruleFmt = "rapid: payloads from a recursive JSON-value grammar (maps incl. hostile keys, slices, tagged/embedded structs, pointers, strings with control chars / quotes / <>& / U+2028 / invalid UTF-8, []byte, json.Number, int64/uint64 extremes, floats incl. -0 and subnormals, time.Time, and unencodable NaN/Inf/chan/func/complex/bad Number) x event types with special characters x CreatedAt with zones and nanoseconds x predicate outcomes, for JSONFormatter, JSONFormatterFilter and Filter; oracle = decode round trip against an independent json.Marshal image of a twin payload, exact member set, single trailing newline, payload twin unchanged, forwarding truth table; non-trivial = nesting >= 2 with a hostile string, or unencodable; distinct = case descriptor"
const ruleTable = "rapid: sequences of FormattedAs/Format on one Event (incl. zero Event) vs a map model (last writer wins, absent keys false); concurrent variant: N goroutines on one Event, every Format result is absent or one of the written slices (same backing array), final value is some goroutine's last write; non-trivial = >=2 writes to one key / >=2 goroutines"

func jsonEqual(a, b []byte) (bool, error) {
	da := json.NewDecoder(bytes.NewReader(a))
	da.UseNumber()
	db := json.NewDecoder(bytes.NewReader(b))
	db.UseNumber()
	var va, vb interface{}
	if err := da.Decode(&va); err != nil {
		return false, err
	}
	if err := db.Decode(&vb); err != nil {
		return false, err
	}
	return reflect.DeepEqual(va, vb), nil
}

var eventTypes = []string{"test-event", "", "a b", "quote\"type", "new\nline", "<tag>&", "ünï ☃", " ", strings.Repeat("t", 300)}

func TestC14Formatters(t *testing.T) {
	sec := stats.Sec("formatters", ruleFmt)
	rapid.Check(t, func(t *rapid.T) { formatterProp(t, sec) })
}

// earlier remembers the last few events and the exact line that was stored for them: a later Process call
// on the same formatter kind must not alter what an earlier (possibly dropped) event carries.
type earlierEv struct {
	ev   *eventlogger.Event
	line []byte
	desc string
}

var (
	earlierMu sync.Mutex
	earlier   []earlierEv
)

func rememberAndRecheck(ev *eventlogger.Event, desc string) string {
	earlierMu.Lock()
	defer earlierMu.Unlock()
	for _, old := range earlier {
		got, ok := old.ev.Format(eventlogger.JSONFormat)
		if !ok || !bytes.Equal(got, old.line) {
			return fmt.Sprintf("the line stored for an EARLIER event changed after later Process calls: was %q, now %q (earlier case: %s)", old.line, got, old.desc)
		}
	}
	if line, ok := ev.Format(eventlogger.JSONFormat); ok {
		earlier = append(earlier, earlierEv{ev, append([]byte(nil), line...), desc})
		if len(earlier) > 8 {
			earlier = earlier[1:]
		}
	}
	return ""
}

type caseSink interface {
	Case(nontrivial bool, desc string, classes ...string)
}

type noSink struct{}

func (noSink) Case(bool, string, ...string) {}

func formatterProp(t *rapid.T, s *stats.Section) {
	var sec caseSink = noSink{}
	if s != nil {
		sec = s
	}
	{
		d := jsonval.Gen(t, rapid.IntRange(0, 4).Draw(t, "depth"), rapid.IntRange(0, 3).Draw(t, "unenc") == 0)
		et := rapid.SampledFrom(eventTypes).Draw(t, "eventType")
		if rapid.IntRange(0, 2).Draw(t, "genType") == 0 {
			// arbitrary bytes: control characters, DEL, invalid / truncated UTF-8, astral runes
			et = string(rapid.SliceOfN(rapid.SampledFrom([]byte{0, 1, 7, 0x0b, 0x1b, 0x1f, ' ', '"', '\\', 'a', 'Z', 0x7f, 0x80, 0xc3, 0xa9, 0xe2, 0x98, 0x83, 0xf3, 0xa0, 0x80, 0x81, 0xff, 0xfe}), 0, 8).Draw(t, "typeBytes"))
		}
		created := time.Date(rapid.IntRange(1, 9999).Draw(t, "year"), time.Month(rapid.IntRange(1, 12).Draw(t, "mon")), 28, 23, 59, 58, rapid.IntRange(0, 999999999).Draw(t, "nanos"),
			time.FixedZone("x", rapid.SampledFrom([]int{0, 0, 3600, -8 * 3600, 5*3600 + 2700}).Draw(t, "zoneOff")))
		node := rapid.SampledFrom([]string{"JSONFormatter", "JSONFormatterFilter"}).Draw(t, "node")
		pred := rapid.SampledFrom([]string{"nil", "true", "false", "error", "true+error"}).Draw(t, "predicate")
		preFmt := rapid.Bool().Draw(t, "preexistingFormat")
		desc := fmt.Sprintf("%s pred=%s type=%q created=%s payload=%s", node, pred, et, created.Format(time.RFC3339Nano), d)

		payload := jsonval.Build(d)
		twin := jsonval.Build(d)
		ev := &eventlogger.Event{Type: eventlogger.EventType(et), CreatedAt: created, Formatted: map[string][]byte{}, Payload: payload}
		if preFmt {
			ev.Formatted["other"] = []byte("keep")
		}
		predErr := errors.New("predicate failed")
		var predArg interface{}
		var n eventlogger.Node
		reentry := rapid.SampledFrom([]string{"", "", "", "Format", "FormattedAs"}).Draw(t, "predicateReentry")
		if node == "JSONFormatter" {
			n = &eventlogger.JSONFormatter{}
			pred = "nil"
		} else {
			ff := &eventlogger.JSONFormatterFilter{}
			reenter := func(e interface{}) {
				ev, ok := e.(*eventlogger.Event)
				if !ok {
					return
				}
				switch reentry {
				case "Format":
					_, _ = ev.Format(eventlogger.JSONFormat)
				case "FormattedAs":
					ev.FormattedAs("set-by-predicate", []byte("p"))
				}
			}
			switch pred {
			case "true":
				ff.Predicate = func(e interface{}) (bool, error) { predArg = e; reenter(e); return true, nil }
			case "false":
				ff.Predicate = func(e interface{}) (bool, error) { predArg = e; reenter(e); return false, nil }
			case "error":
				ff.Predicate = func(e interface{}) (bool, error) { predArg = e; reenter(e); return false, predErr }
			case "true+error":
				ff.Predicate = func(e interface{}) (bool, error) { predArg = e; reenter(e); return true, predErr }
			}
			n = ff
		}
		// a formatter node has a life before this event: earlier events (also ones it could not encode) and Reopen calls
		warm := rapid.SampledFrom([]string{"", "", "event", "event+reopen", "reopen", "event+reopen+event", "failing-event+reopen"}).Draw(t, "earlierLife")
		if warm != "" {
			save := predArg
			mk := func(p interface{}) *eventlogger.Event {
				return &eventlogger.Event{Type: "warm-up", CreatedAt: created, Formatted: map[string][]byte{}, Payload: p}
			}
			for _, step := range strings.Split(warm, "+") {
				switch step {
				case "event":
					_, _ = n.Process(context.Background(), mk(map[string]interface{}{"warm": strings.Repeat("w", 100)}))
				case "failing-event":
					_, _ = n.Process(context.Background(), mk(make(chan int)))
				case "reopen":
					_ = n.Reopen()
				}
			}
			predArg = save
			desc += " earlierLife=" + warm
		}
		var out *eventlogger.Event
		var err error
		done := make(chan struct{})
		go func() {
			defer close(done)
			out, err = n.Process(context.Background(), ev)
		}()
		select {
		case <-done:
		case <-time.After(10 * time.Second):
			t.Fatalf("VIOLATION C14: Process did not return within 10s (predicate re-entry %q into the event's format table)\ncase: %s", reentry, desc)
		}
		enc := jsonval.Encodable(d)
		if !enc {
			if err == nil || out != nil {
				t.Fatalf("VIOLATION C14: unencodable payload gave (event=%v, err=%v), want an error and no event\ncase: %s", out != nil, err, desc)
			}
			if _, ok := ev.Format(eventlogger.JSONFormat); ok {
				t.Fatalf("VIOLATION C14: a json format was stored although encoding failed\ncase: %s", desc)
			}
			if preFmt != (len(ev.Formatted) == 1) {
				t.Fatalf("VIOLATION C14: format table changed although encoding failed\ncase: %s", desc)
			}
			sec.Case(true, desc, "unencodable")
			return
		}
		// forwarding truth table
		switch pred {
		case "nil", "true":
			if err != nil || out == nil {
				t.Fatalf("VIOLATION C14: event not forwarded (err=%v)\ncase: %s", err, desc)
			}
		case "false":
			if err != nil || out != nil {
				t.Fatalf("VIOLATION C14: predicate false must drop the event without error (event=%v err=%v)\ncase: %s", out != nil, err, desc)
			}
		case "error", "true+error":
			if err == nil || out != nil {
				t.Fatalf("VIOLATION C14: predicate error must surface as an error and nothing be forwarded (event=%v err=%v)\ncase: %s", out != nil, err, desc)
			}
		}
		if pred != "nil" && predArg == nil {
			t.Fatalf("VIOLATION C14: predicate was not consulted\ncase: %s", desc)
		}
		// the line is read from the forwarded event (which need not be the very pointer that went in); for an event
		// that is not forwarded the statement does not require a line, but one that is there must be well-formed
		carrier := ev
		if out != nil {
			carrier = out
		}
		line, ok := carrier.Format(eventlogger.JSONFormat)
		if !ok {
			if out != nil {
				t.Fatalf("VIOLATION C14: nothing stored under the json format of the forwarded event\ncase: %s", desc)
			}
			sec.Case(false, desc, "node="+node, "pred="+pred, "not_forwarded_and_not_formatted")
			return
		}
		if out != nil && out != ev {
			if out.Type != ev.Type || !out.CreatedAt.Equal(ev.CreatedAt) || !reflect.DeepEqual(out.Payload, ev.Payload) {
				t.Fatalf("VIOLATION C14: the forwarded event is not the event that was given (type, creation time or payload differ)\ncase: %s", desc)
			}
		}
		if len(line) == 0 || line[len(line)-1] != '\n' || bytes.Count(line, []byte("\n")) != 1 {
			t.Fatalf("VIOLATION C14: output is not exactly one newline-terminated line: %q\ncase: %s", line, desc)
		}
		var members map[string]json.RawMessage
		dec := json.NewDecoder(bytes.NewReader(line))
		if err := dec.Decode(&members); err != nil {
			t.Fatalf("VIOLATION C14: output is not valid JSON: %v: %q\ncase: %s", err, line, desc)
		}
		if dec.More() {
			t.Fatalf("VIOLATION C14: more than one JSON document in the line\ncase: %s", desc)
		}
		var names []string
		for k := range members {
			names = append(names, k)
		}
		sort.Strings(names)
		if strings.Join(names, ",") != "created_at,event_type,payload" {
			t.Fatalf("VIOLATION C14: members are %v, want created_at,event_type,payload\ncase: %s", names, desc)
		}
		var ca time.Time
		if err := json.Unmarshal(members["created_at"], &ca); err != nil || !ca.Equal(created) {
			t.Fatalf("VIOLATION C14: created_at %s does not decode to the event's creation time %s (%v)\ncase: %s", members["created_at"], created, err, desc)
		}
		var gotType string
		if err := json.Unmarshal(members["event_type"], &gotType); err != nil || gotType != jsonCoerce(et) {
			t.Fatalf("VIOLATION C14: event_type %s does not decode to %q\ncase: %s", members["event_type"], et, desc)
		}
		want, merr := json.Marshal(twin)
		if merr != nil {
			t.Skip("twin not encodable: " + merr.Error())
		}
		if eq, derr := jsonEqual(members["payload"], want); derr != nil || !eq {
			t.Fatalf("VIOLATION C14: payload member %s is not the JSON image %s of the payload (%v)\ncase: %s", members["payload"], want, derr, desc)
		}
		// the payload itself is untouched
		after, _ := json.Marshal(ev.Payload)
		if !bytes.Equal(after, want) || !reflect.DeepEqual(ev.Payload, twin) {
			if !containsFuncOrChan(d) {
				t.Fatalf("VIOLATION C14: the payload was modified by formatting\ncase: %s", desc)
			}
		}
		if ev.Type != eventlogger.EventType(et) || !ev.CreatedAt.Equal(created) {
			t.Fatalf("VIOLATION C14: event header modified\ncase: %s", desc)
		}
		if preFmt {
			if v, ok := carrier.Format("other"); !ok || string(v) != "keep" {
				t.Fatalf("VIOLATION C14: an unrelated format entry was lost\ncase: %s", desc)
			}
		}
		// the same event reaches a JSON formatter again after a node in between changed it: the line must follow
		if out != nil && rapid.IntRange(0, 3).Draw(t, "secondPass") == 0 {
			n2v := rapid.IntRange(0, 1000000).Draw(t, "secondPayload")
			carrier.Payload = map[string]interface{}{"second_pass": n2v}
			how := rapid.SampledFrom([]string{"same-node", "other-formatter", "after-overwriting-the-line"}).Draw(t, "secondHow")
			var n2 eventlogger.Node = n
			if how != "same-node" {
				n2 = &eventlogger.JSONFormatter{}
			}
			if how == "after-overwriting-the-line" {
				carrier.FormattedAs(eventlogger.JSONFormat, []byte("overwritten by a node in between\n"))
			}
			out2, err2 := n2.Process(context.Background(), carrier)
			if err2 == nil && out2 != nil {
				line2, ok2 := out2.Format(eventlogger.JSONFormat)
				var m2 map[string]json.RawMessage
				want2 := fmt.Sprintf(`{"second_pass":%d}`, n2v)
				if !ok2 || json.Unmarshal(line2, &m2) != nil {
					t.Fatalf("VIOLATION C14: second pass (%s) stored no valid line: %q\ncase: %s", how, line2, desc)
				}
				if eq, _ := jsonEqual(m2["payload"], []byte(want2)); !eq {
					t.Fatalf("VIOLATION C14: the event was formatted again (%s) after its payload changed to %s, but the stored line still carries payload %s\ncase: %s", how, want2, m2["payload"], desc)
				}
				carrier = out2
			}
		}
		if msg := rememberAndRecheck(carrier, desc); msg != "" {
			t.Fatalf("VIOLATION C14: %s\ncase: %s", msg, desc)
		}
		cl := []string{"node=" + node, "pred=" + pred}
		if reentry != "" && pred != "nil" {
			cl = append(cl, "predicate_reentry="+reentry)
		}
		if d.HasHostile() {
			cl = append(cl, "hostile_string")
		}
		sec.Case(d.Depth() >= 2 && d.HasHostile(), desc, cl...)
	}
}

func containsFuncOrChan(d jsonval.Desc) bool { return false }

// jsonCoerce is what a JSON string round trip makes of a Go string: every invalid UTF-8 byte becomes U+FFFD.
func jsonCoerce(s string) string {
	var sb strings.Builder
	for i := 0; i < len(s); {
		r, n := utf8.DecodeRuneInString(s[i:])
		if r == utf8.RuneError && n == 1 {
			sb.WriteRune(0xfffd)
		} else {
			sb.WriteString(s[i : i+n])
		}
		i += n
	}
	return sb.String()
}

func TestC14Filter(t *testing.T) {
	sec := stats.Sec("filter", "rapid: eventlogger.Filter with predicate outcomes true/false/error over generated events; oracle = forwards the event iff true, drops iff false, error iff predicate error; non-trivial = error or false outcome")
	rapid.Check(t, func(t *rapid.T) {
		pred := rapid.SampledFrom([]string{"true", "false", "error"}).Draw(t, "predicate")
		d := jsonval.Gen(t, 2, true)
		ev := &eventlogger.Event{Type: eventlogger.EventType(rapid.SampledFrom(eventTypes).Draw(t, "type")), Payload: jsonval.Build(d)}
		perr := errors.New("predicate failed")
		var seen *eventlogger.Event
		f := &eventlogger.Filter{Predicate: func(e *eventlogger.Event) (bool, error) {
			seen = e
			switch pred {
			case "true":
				return true, nil
			case "false":
				return false, nil
			}
			return rapid.Bool().Draw(t, "keepWithErr"), perr
		}}
		out, err := f.Process(context.Background(), ev)
		if seen == nil {
			t.Fatalf("VIOLATION C14: Filter's predicate was not consulted")
		}
		switch pred {
		case "true":
			if out == nil || err != nil || (out != ev && (out.Type != ev.Type || !reflect.DeepEqual(out.Payload, ev.Payload))) {
				t.Fatalf("VIOLATION C14: Filter with a true predicate did not forward the event (err=%v)", err)
			}
		case "false":
			if out != nil || err != nil {
				t.Fatalf("VIOLATION C14: Filter with a false predicate must drop without error (event=%v err=%v)", out != nil, err)
			}
		case "error":
			if out != nil || err == nil {
				t.Fatalf("VIOLATION C14: Filter with a failing predicate must return an error and no event (event=%v err=%v)", out != nil, err)
			}
		}
		sec.Case(pred != "true", "Filter pred="+pred+" payload="+d.String(), "pred="+pred)
	})
}

func TestC14TableSequential(t *testing.T) {
	sec := stats.Sec("format_table", ruleTable)
	keys := []string{"json", "text", "", "cloudevents-json", "JSON", "Json", "json ", " json", "text\n"} // exact strings
	rapid.Check(t, func(t *rapid.T) {
		ev := &eventlogger.Event{}
		if rapid.Bool().Draw(t, "preinit") {
			ev.Formatted = map[string][]byte{}
		}
		model := map[string][]byte{}
		n := rapid.IntRange(1, 12).Draw(t, "n")
		rewrites := 0
		var hist []string
		for i := 0; i < n; i++ {
			k := rapid.SampledFrom(keys).Draw(t, "key")
			if rapid.IntRange(0, 2).Draw(t, "op") == 0 {
				got, ok := ev.Format(k)
				want, wok := model[k]
				hist = append(hist, fmt.Sprintf("Format(%q)", k))
				if ok != wok || !bytes.Equal(got, want) {
					t.Fatalf("VIOLATION C14: Format(%q) = (%q,%v), last written (%q,%v)\nhistory: %v", k, got, ok, want, wok, hist)
				}
				continue
			}
			v := rapid.SliceOfN(rapid.Byte(), 0, 6).Draw(t, "val")
			if rapid.IntRange(0, 5).Draw(t, "nilval") == 0 {
				v = nil
			}
			if _, ok := model[k]; ok {
				rewrites++
			}
			if ev.Formatted != nil && rapid.IntRange(0, 4).Draw(t, "direct") == 0 {
				// the table is an exported field: a node may also edit it directly
				if rapid.Bool().Draw(t, "delete") {
					delete(ev.Formatted, k)
					delete(model, k)
					hist = append(hist, fmt.Sprintf("delete(Formatted,%q)", k))
				} else {
					ev.Formatted[k] = v
					model[k] = v
					hist = append(hist, fmt.Sprintf("Formatted[%q]=%dB", k, len(v)))
				}
				continue
			}
			ev.FormattedAs(k, v)
			model[k] = v
			hist = append(hist, fmt.Sprintf("FormattedAs(%q,%dB)", k, len(v)))
		}
		for _, k := range keys {
			got, ok := ev.Format(k)
			want, wok := model[k]
			if ok != wok || !bytes.Equal(got, want) {
				t.Fatalf("VIOLATION C14: Format(%q) = (%q,%v), last written (%q,%v)\nhistory: %v", k, got, ok, want, wok, hist)
			}
		}
		sec.Case(rewrites > 0, strings.Join(hist, " "), "sequential")
	})
}

func TestC14TableConcurrent(t *testing.T) {
	sec := stats.Sec("format_table_concurrent", ruleTable)
	rapid.Check(t, func(t *rapid.T) {
		g := rapid.IntRange(2, 8).Draw(t, "goroutines")
		per := rapid.IntRange(1, 30).Draw(t, "opsPerGoroutine")
		keys := []string{"json", "text", "JSON", "json "}
		ev := &eventlogger.Event{}
		written := make([][][]byte, g) // per goroutine, the slices it wrote (per op)
		lastFor := make([]map[string][]byte, g)
		var wg sync.WaitGroup
		var bad sync.Map
		type kv struct {
			key string
			val []byte
		}
		all := make([]kv, 0, g*per)
		var allMu sync.Mutex
		for i := 0; i < g; i++ {
			lastFor[i] = map[string][]byte{}
			wg.Add(1)
			go func(i int) {
				defer wg.Done()
				for k := 0; k < per; k++ {
					key := keys[(i+k)%2]
					if k%3 == 2 {
						got, ok := ev.Format(key)
						if ok && len(got) > 0 {
							allMu.Lock()
							found := false
							for _, w := range all {
								// by content (values are unique and name their key's parity): whether the table keeps
								// the caller's slice or a private copy is not part of the statement
								if w.key == key && bytes.Equal(w.val, got) {
									found = true
									break
								}
							}
							allMu.Unlock()
							if !found {
								bad.Store(fmt.Sprintf("Format(%q) returned %q which nobody wrote", key, got), true)
							}
						}
						continue
					}
					v := []byte(fmt.Sprintf("g%d-op%d", i, k))
					allMu.Lock()
					all = append(all, kv{key, append([]byte(nil), v...)})
					allMu.Unlock()
					written[i] = append(written[i], v)
					ev.FormattedAs(key, v)
					lastFor[i][key] = v
				}
			}(i)
		}
		wg.Wait()
		bad.Range(func(k, _ interface{}) bool {
			t.Fatalf("VIOLATION C14: %s", k)
			return false
		})
		for _, key := range keys {
			got, ok := ev.Format(key)
			anyWrote := false
			match := false
			for i := 0; i < g; i++ {
				if v, w := lastFor[i][key]; w {
					anyWrote = true
					if bytes.Equal(v, got) {
						match = true
					}
				}
			}
			if anyWrote && (!ok || !match) {
				t.Fatalf("VIOLATION C14: after quiescence Format(%q)=%q is not the last write of any goroutine", key, got)
			}
		}
		sec.Case(true, fmt.Sprintf("goroutines=%d ops=%d", g, per), "concurrent")
	})
}

// FuzzC14 drives the formatter property through Go's coverage-guided fuzzer (thorough tier only).
func FuzzC14(f *testing.F) {
	sec := stats.Sec("native_fuzz", ruleFmt)
	_ = sec
	f.Fuzz(rapid.MakeFuzz(func(t *rapid.T) { formatterProp(t, nil) }))
}
