package c14

import (
	"bytes"
	"context"
	"encoding/json"
	"fmt"
	"strings"
	"sync"
	"testing"
	"time"
	"verif/harness/internal/simul"

	"github.com/hashicorp/eventlogger"
	"pgregory.net/rapid"
	"verif/harness/internal/stats"
)

const ruleConcFmt = "rapid: 1-2 JSON formatter nodes (JSONFormatter, JSONFormatterFilter) shared by 2-8 goroutines that each format 5-40 distinct events (payloads of different sizes), after 0-3 earlier Process calls whose payload could not be encoded; built with -race; oracle = every event's stored line is one newline-terminated JSON document whose payload member is that event's own payload; non-trivial = >=1 earlier encode failure and >=4 goroutines; distinct = configuration"

// TestC14ConcurrentFormatters: formatter nodes are shared between pipelines and goroutines.
func TestC14ConcurrentFormatters(t *testing.T) {
	sec := stats.Sec("formatters_concurrent", ruleConcFmt)
	rapid.Check(t, func(t *rapid.T) {
		g := rapid.IntRange(2, 8).Draw(t, "goroutines")
		per := rapid.IntRange(5, 40).Draw(t, "eventsPerGoroutine")
		failures := rapid.IntRange(0, 3).Draw(t, "earlierEncodeFailures")
		twoNodes := rapid.Bool().Draw(t, "twoNodes")
		nodes := []eventlogger.Node{&eventlogger.JSONFormatter{}}
		if twoNodes {
			nodes = append(nodes, &eventlogger.JSONFormatterFilter{})
		}
		d := fmt.Sprintf("goroutines=%d events=%d earlierEncodeFailures=%d nodes=%d", g, per, failures, len(nodes))
		for i := 0; i < failures; i++ {
			ev := &eventlogger.Event{Type: "t", Payload: map[string]interface{}{"unencodable": make(chan int)}}
			if out, err := nodes[i%len(nodes)].Process(context.Background(), ev); err == nil || out != nil {
				t.Fatalf("VIOLATION C14: unencodable payload gave (event=%v, err=%v), want an error and no event\ncase: %s", out != nil, err, d)
			}
		}
		type rec struct {
			ev   *eventlogger.Event
			want string
		}
		recs := make([][]rec, g)
		var wg sync.WaitGroup
		for i := 0; i < g; i++ {
			wg.Add(1)
			go func(i int) {
				defer wg.Done()
				for k := 0; k < per; k++ {
					pad := strings.Repeat(string(rune('a'+i)), (i*7+k*13)%90)
					p := map[string]interface{}{"g": i, "k": k, "pad": pad}
					ev := &eventlogger.Event{Type: "t", Payload: p}
					out, err := nodes[(i+k)%len(nodes)].Process(context.Background(), ev)
					if err != nil || out == nil {
						continue
					}
					recs[i] = append(recs[i], rec{out, fmt.Sprintf(`{"g":%d,"k":%d,"pad":%q}`, i, k, pad)})
				}
			}(i)
		}
		wg.Wait()
		for i := range recs {
			if len(recs[i]) != per {
				t.Fatalf("VIOLATION C14: %d of %d encodable events of goroutine %d were not forwarded\ncase: %s", per-len(recs[i]), per, i, d)
			}
			for _, r := range recs[i] {
				line, ok := r.ev.Format(eventlogger.JSONFormat)
				if !ok || len(line) == 0 || line[len(line)-1] != '\n' || bytes.Count(line, []byte("\n")) != 1 {
					t.Fatalf("VIOLATION C14: stored value %q is not exactly one newline-terminated line (want payload %s)\ncase: %s", line, r.want, d)
				}
				var m map[string]json.RawMessage
				if err := json.Unmarshal(line, &m); err != nil {
					t.Fatalf("VIOLATION C14: stored line %q is not valid JSON (want payload %s)\ncase: %s", line, r.want, d)
				}
				if eq, _ := jsonEqual(m["payload"], []byte(r.want)); !eq {
					t.Fatalf("VIOLATION C14: an event's line carries payload %s, its own payload is %s (formatter shared between goroutines)\ncase: %s", m["payload"], r.want, d)
				}
			}
		}
		cl := []string{fmt.Sprintf("earlier_failures=%d", failures)}
		sec.Case(failures >= 1 && g >= 4, d, cl...)
	})
}

// TestC14FirstWriters: the very first FormattedAs calls on an Event whose table does not exist yet, made at the
// same instant by several goroutines for different keys: nobody's write may be lost.
func TestC14FirstWriters(t *testing.T) {
	sec := stats.Sec("first_writers", "rapid: 2-8 goroutines released through a spin barrier each make the first FormattedAs call (own key) on a fresh Event whose format table is nil, 200-1000 rounds per case; built with -race; oracle = afterwards Format returns every goroutine's value; non-trivial = >=4 goroutines; distinct = configuration")
	rapid.Check(t, func(t *rapid.T) {
		g := rapid.IntRange(2, 8).Draw(t, "goroutines")
		rounds := rapid.SampledFrom([]int{200, 1000}).Draw(t, "rounds")
		for r := 0; r < rounds; r++ {
			ev := &eventlogger.Event{}
			fs := make([]func(), g)
			for i := range fs {
				i := i
				fs[i] = func() { ev.FormattedAs(fmt.Sprintf("k%d", i), []byte(fmt.Sprintf("v%d", i))) }
			}
			if !simul.Burst(20*time.Second, fs...) {
				t.Fatalf("VIOLATION C14: FormattedAs did not return")
			}
			for i := 0; i < g; i++ {
				if v, ok := ev.Format(fmt.Sprintf("k%d", i)); !ok || string(v) != fmt.Sprintf("v%d", i) {
					t.Fatalf("VIOLATION C14: the value written under %q by one of %d simultaneous first writers is gone: Format = (%q,%v) (round %d)", fmt.Sprintf("k%d", i), g, v, ok, r)
				}
			}
		}
		sec.Case(g >= 4, fmt.Sprintf("goroutines=%d rounds=%d", g, rounds), fmt.Sprintf("goroutines=%d", g))
	})
}
