package c07

import (
	"context"
	"fmt"
	"sync"
	"sync/atomic"
	"testing"

	"github.com/hashicorp/eventlogger"
	"pgregory.net/rapid"
	"verif/harness/internal/nodes"
	"verif/harness/internal/stats"
)

const ruleConc = "rapid: one goroutine overwrites pipeline p with versions v1..vN (each version has its own marker sink; optionally also re-registers the shared filter id) while 2-6 senders run; logical timestamps bracket every call; oracle = every Send that started after v1 was registered is seen by exactly one version's marker (never both, never neither), and by a version >= k if it started after overwrite k returned; built with -race; non-trivial = >=1 Send overlapped an overwrite; distinct = case descriptor"

func TestC07ConcurrentOverwrite(t *testing.T) {
	sec := stats.Sec("concurrent_overwrite", ruleConc)
	rapid.Check(t, func(t *rapid.T) {
		versions := rapid.IntRange(2, 30).Draw(t, "versions")
		senders := rapid.IntRange(2, 6).Draw(t, "senders")
		per := rapid.IntRange(5, 80).Draw(t, "sendsPerSender")
		reregFilter := rapid.Bool().Draw(t, "reregisterFilterNode")
		b, _ := eventlogger.NewBroker()
		w := &nodes.World{}
		var clock atomic.Int64
		_ = b.RegisterNode("f", &nodes.N{W: w, Name: "f#0", ID: "f", T: eventlogger.NodeTypeFilter})
		_ = b.RegisterNode("m", &nodes.N{W: w, Name: "m", ID: "m", T: eventlogger.NodeTypeFormatter})
		type ver struct {
			sink      *nodes.N
			call, ret int64
		}
		vers := make([]*ver, versions)
		reg := func(k int) {
			sid := eventlogger.NodeID(fmt.Sprintf("s%d", k))
			v := &ver{sink: &nodes.N{W: w, Name: string(sid), ID: string(sid), T: eventlogger.NodeTypeSink}}
			_ = b.RegisterNode(sid, v.sink)
			if reregFilter && k%3 == 1 {
				_ = b.RegisterNode("f", &nodes.N{W: w, Name: fmt.Sprintf("f#%d", k), ID: "f", T: eventlogger.NodeTypeFilter})
			}
			v.call = clock.Add(1)
			err := b.RegisterPipeline(eventlogger.Pipeline{PipelineID: "p", EventType: "A", NodeIDs: []eventlogger.NodeID{"f", "m", sid}})
			v.ret = clock.Add(1)
			if err != nil {
				panic("harness: overwrite failed: " + err.Error())
			}
			vers[k] = v
		}
		reg(0)
		type srec struct {
			id         int
			start, end int64
		}
		var mu sync.Mutex
		var sends []srec
		var wg sync.WaitGroup
		var sid atomic.Int64
		for s := 0; s < senders; s++ {
			wg.Add(1)
			go func() {
				defer wg.Done()
				for i := 0; i < per; i++ {
					id := int(sid.Add(1))
					st := clock.Add(1)
					_, _ = b.Send(context.Background(), "A", &nodes.Lin{Path: fmt.Sprintf("S%d", id), SendID: id})
					en := clock.Add(1)
					mu.Lock()
					sends = append(sends, srec{id, st, en})
					mu.Unlock()
				}
			}()
		}
		wg.Add(1)
		go func() {
			defer wg.Done()
			for k := 1; k < versions; k++ {
				reg(k)
			}
		}()
		wg.Wait()
		seenBy := map[int][]int{} // send id -> versions that saw it
		sinkVer := map[*nodes.N]int{}
		for k, v := range vers {
			sinkVer[v.sink] = k
		}
		for _, c := range w.Calls() {
			if k, ok := sinkVer[c.Node]; ok {
				seenBy[c.SendID] = append(seenBy[c.SendID], k)
			}
		}
		overlapped := 0
		for _, s := range sends {
			vs := seenBy[s.id]
			if len(vs) != 1 {
				t.Fatalf("VIOLATION C07: Send %d [%d,%d] was processed by %d versions %v of the overwritten pipeline (exactly one expected)", s.id, s.start, s.end, len(vs), vs)
			}
			minV := 0
			for k, v := range vers {
				if v.ret < s.start {
					minV = k
				}
				if v.call < s.end && s.start < v.ret && k > 0 {
					overlapped++
				}
			}
			if vs[0] < minV {
				t.Fatalf("VIOLATION C07: Send %d started after overwrite %d had returned but was processed by the older version %d", s.id, minV, vs[0])
			}
		}
		sec.Case(overlapped > 0, fmt.Sprintf("versions=%d senders=%d sends=%d reregFilter=%v", versions, senders, per, reregFilter), fmt.Sprintf("overlapping_sends>0=%v", overlapped > 0))
	})
}
