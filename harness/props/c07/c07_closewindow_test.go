package c07

import (
	"context"
	"errors"
	"fmt"
	"testing"

	"github.com/hashicorp/eventlogger"
	"pgregory.net/rapid"
	"verif/harness/internal/stats"
)

const ruleWin = "rapid: a node id is removed (RemoveNode, or RemovePipelineAndNodes of its only pipeline) with a live or an already expired context, its Close succeeding or failing, and from inside that Close the same id is registered again with DenyOverwrite or AllowOverwrite; oracle = if that inner registration returned nil with DenyOverwrite, every later registration under the id fails and a pipeline registered afterwards delivers to the inner registration's node; with AllowOverwrite a later registration succeeds; non-trivial = Close failed with an expired context and the inner policy was DenyOverwrite; distinct = configuration"

type cwNode struct {
	name      string
	t         eventlogger.NodeType
	processed int
	closeErr  error
	onClose   func()
}

func (n *cwNode) Process(_ context.Context, e *eventlogger.Event) (*eventlogger.Event, error) {
	n.processed++
	if n.t == eventlogger.NodeTypeSink {
		return nil, nil
	}
	return e, nil
}
func (n *cwNode) Reopen() error              { return nil }
func (n *cwNode) Type() eventlogger.NodeType { return n.t }
func (n *cwNode) Close(ctx context.Context) error {
	if n.onClose != nil {
		n.onClose()
	}
	return n.closeErr
}

// TestC07CloseWindow: registrations made while the broker closes the node that held the id.
func TestC07CloseWindow(t *testing.T) {
	sec := stats.Sec("close_window", ruleWin)
	rapid.Check(t, func(t *rapid.T) {
		via := rapid.SampledFrom([]string{"RemoveNode", "RemovePipelineAndNodes"}).Draw(t, "via")
		ctxDone := rapid.Bool().Draw(t, "ctxDone")
		closeFails := rapid.Bool().Draw(t, "closeFails")
		innerDeny := rapid.Bool().Draw(t, "innerDeny")
		d := fmt.Sprintf("via=%s ctxDone=%v closeFails=%v innerPolicy=%s", via, ctxDone, closeFails, map[bool]string{true: "deny", false: "allow"}[innerDeny])
		b, _ := eventlogger.NewBroker()
		old := &cwNode{name: "old", t: eventlogger.NodeTypeSink}
		inner := &cwNode{name: "inner", t: eventlogger.NodeTypeSink}
		if closeFails {
			old.closeErr = errors.New("close failed")
		}
		var innerErr error
		innerRan := false
		old.onClose = func() {
			innerRan = true
			pol := eventlogger.AllowOverwrite
			if innerDeny {
				pol = eventlogger.DenyOverwrite
			}
			innerErr = b.RegisterNode("s", inner, eventlogger.WithNodeRegistrationPolicy(pol))
		}
		m := &cwNode{name: "m", t: eventlogger.NodeTypeFormatter}
		_ = b.RegisterNode("m", m)
		_ = b.RegisterNode("s", old)
		ctx, cancel := context.WithCancel(context.Background())
		defer cancel()
		if ctxDone {
			cancel()
		}
		if via == "RemoveNode" {
			_ = b.RemoveNode(ctx, "s")
		} else {
			_ = b.RegisterPipeline(eventlogger.Pipeline{PipelineID: "p", EventType: "T", NodeIDs: []eventlogger.NodeID{"m", "s"}})
			_, _ = b.RemovePipelineAndNodes(ctx, "T", "p")
			_ = b.RegisterNode("m", m)
		}
		if !innerRan || innerErr != nil {
			// the broker did not close the node, or refused the registration made from inside Close: nothing to check
			sec.Case(false, d, "inner_registration_did_not_take_place")
			return
		}
		later := &cwNode{name: "later", t: eventlogger.NodeTypeSink}
		laterErr := b.RegisterNode("s", later)
		if innerDeny && laterErr == nil {
			t.Fatalf("VIOLATION C07: id \"s\" was registered with DenyOverwrite (from inside the Close of its previous holder, the call returned nil) and a later registration under it succeeded\ncase: %s", d)
		}
		if !innerDeny && laterErr != nil {
			t.Fatalf("VIOLATION C07: id \"s\" was registered with AllowOverwrite and a later registration failed: %v\ncase: %s", laterErr, d)
		}
		want := inner
		if !innerDeny {
			want = later
		}
		if err := b.RegisterPipeline(eventlogger.Pipeline{PipelineID: "q", EventType: "T", NodeIDs: []eventlogger.NodeID{"m", "s"}}); err != nil {
			t.Fatalf("VIOLATION C07: a pipeline over the re-registered id cannot be registered: %v\ncase: %s", err, d)
		}
		if _, err := b.Send(context.Background(), "T", "x"); err != nil {
			t.Fatalf("VIOLATION C07: Send through the re-registered id failed: %v\ncase: %s", err, d)
		}
		if want.processed != 1 || old.processed != 0 {
			t.Fatalf("VIOLATION C07: the pipeline registered afterwards delivered to the wrong node (holder=%d, removed node=%d, inner=%d, later=%d deliveries)\ncase: %s", want.processed, old.processed, inner.processed, later.processed, d)
		}
		sec.Case(closeFails && ctxDone && innerDeny, d, "via="+via)
	})
}
