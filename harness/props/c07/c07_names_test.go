package c07

import (
	"fmt"
	"strings"
	"testing"

	"verif/harness/internal/model"
	"verif/harness/internal/stats"
)

const ruleNames = "enumeration: every ordered pair of DISTINCT (event type, pipeline id) keys, and of distinct node ids, taken from families of names that collide under careless normalisation - a separator moved between type and id (A/x + p vs A + x/p, also with '.', ':', '-', '#', ' '), surrounding white space, case, white-space-only names, names that are prefixes of one another, names of 300 bytes differing in the last byte, multi-byte names - x the policy of the first registration; history: register the first with the policy, register the second (must succeed: it is another id), re-register both, remove the second, re-register the first, with the registry state probed after every step; oracle = the sequential registry specification (DenyOverwrite sticky for exactly that id, removal of one id leaves the other's protection intact, every Send reaches exactly the registered pipelines); non-trivial = first registration with DenyOverwrite; distinct = pair and policy"

// TestC07NameCollisions: "a pipeline ID within an event type" and "a node ID" are exact strings.
func TestC07NameCollisions(t *testing.T) {
	sec := stats.Sec("name_collisions", ruleNames)
	type key struct{ et, p string }
	long := strings.Repeat("0123456789", 30)
	var fam [][]key
	for _, sep := range []string{"/", ".", ":", "-", "#", " ", "|", "\x00"} {
		fam = append(fam, []key{{"A" + sep + "x", "p"}, {"A", "x" + sep + "p"}})
	}
	fam = append(fam,
		[]key{{"A", "p"}, {"A", "p "}, {"A", " p"}, {"A", "p\n"}, {"A", "P"}, {"A ", "p"}, {" A", "p"}, {"a", "p"}},
		[]key{{"A", " "}, {"A", "\t"}, {"A", "  "}, {" ", "p"}, {"\t", "p"}},
		[]key{{"A", "p"}, {"A", "p1"}, {"A", "p10"}, {"Ap", "1"}, {"A", "p-1"}},
		[]key{{"A", long + "a"}, {"A", long + "b"}, {long + "a", "p"}, {long + "b", "p"}},
		[]key{{"A", "é"}, {"A", "é"}, {"A", "事"}, {"A", "事事"}},
	)
	n := 0
	for _, f := range fam {
		for i, k1 := range f {
			for j, k2 := range f {
				if i == j {
					continue
				}
				for _, pol := range []int{0, 2} {
					ops := []model.Op{
						{K: "regnode", N: "n", NT: fmtT}, {K: "regnode", N: "s", NT: sinkT}, {K: "regnode", N: "s2", NT: sinkT},
						{K: "regpipe", ET: k1.et, P: k1.p, IDs: []string{"n", "s"}, Pol: pol},
						{K: "regpipe", ET: k2.et, P: k2.p, IDs: []string{"n", "s2"}},
						{K: "regpipe", ET: k2.et, P: k2.p, IDs: []string{"n", "s"}},
						{K: "regpipe", ET: k1.et, P: k1.p, IDs: []string{"n", "s2"}},
						{K: "rmpipe", ET: k2.et, P: k2.p},
						{K: "regpipe", ET: k1.et, P: k1.p, IDs: []string{"n", "s2"}},
						{K: "rpan", ET: k1.et, P: k1.p},
						{K: "regpipe", ET: k2.et, P: k2.p, IDs: []string{"n", "s"}, Pol: 2},
					}
					msg, _ := run(nil, ops, []string{k1.et, k2.et}, []string{"n", "s", "s2"})
					n++
					if msg != "" {
						stats.Violation("TestC07NameCollisions", map[string]interface{}{"ops": ops, "history": model.Describe(ops), "message": msg})
						t.Fatalf("VIOLATION C07: %s\nhistory: %s", msg, model.Describe(ops))
					}
					sec.Case(pol == 2, fmt.Sprintf("(%q,%q) then (%q,%q) pol=%d", k1.et, k1.p, k2.et, k2.p, pol), fmt.Sprintf("firstPolicyDeny=%v", pol == 2))
				}
			}
		}
	}
	// node ids
	nodeFam := [][]string{{"n", "n ", " n", "N", "n\n"}, {" ", "\t", "  "}, {"n", "n1", "n10"}, {long + "a", long + "b"}, {"é", "é"}}
	for _, f := range nodeFam {
		for i, a := range f {
			for j, b := range f {
				if i == j {
					continue
				}
				for _, pol := range []int{0, 2} {
					ops := []model.Op{
						{K: "regnode", N: a, NT: fmtT, Pol: pol}, {K: "regnode", N: b, NT: fmtT}, {K: "regnode", N: "s", NT: sinkT},
						{K: "regnode", N: b, NT: fmtT}, {K: "regnode", N: a, NT: fmtT},
						{K: "regpipe", ET: "A", P: "p", IDs: []string{a, "s"}},
						{K: "rmnode", N: b}, {K: "regnode", N: a, NT: fmtT}, {K: "rmnode", N: a},
						{K: "rpan", ET: "A", P: "p"}, {K: "regnode", N: b, NT: fmtT, Pol: 2}, {K: "regnode", N: a, NT: fmtT},
					}
					msg, _ := run(nil, ops, []string{"A"}, []string{a, b, "s"})
					if msg != "" {
						stats.Violation("TestC07NameCollisions", map[string]interface{}{"ops": ops, "history": model.Describe(ops), "message": msg})
						t.Fatalf("VIOLATION C07: %s\nhistory: %s", msg, model.Describe(ops))
					}
					sec.Case(pol == 2, fmt.Sprintf("node ids %q then %q pol=%d", a, b, pol), fmt.Sprintf("firstPolicyDeny=%v", pol == 2))
				}
			}
		}
	}
}

const ruleRemoveOverwrite = "enumeration: 2-5 pipelines of one event type registered in order; every choice of one pipeline to remove (RemovePipeline or RemovePipelineAndNodes) followed by every choice of another pipeline to overwrite (with another sink; default policy or DenyOverwrite), optionally followed by a third pipeline's overwrite and by registering the removed id again; the registry state (who receives a Send, in-use accounting) is probed after every step; oracle = the sequential registry specification: exactly one version of the overwritten pipeline and every untouched pipeline receive the next Send; non-trivial = >= 3 pipelines; distinct = configuration"

// TestC07RemoveThenOverwrite: "only by the new one once the overwriting call has returned", after the registry's
// internal order was disturbed by an earlier removal.
func TestC07RemoveThenOverwrite(t *testing.T) {
	sec := stats.Sec("remove_then_overwrite", ruleRemoveOverwrite)
	for n := 2; n <= 5; n++ {
		for rmKind := 0; rmKind < 2; rmKind++ {
			for i := 0; i < n; i++ {
				for j := 0; j < n; j++ {
					if i == j {
						continue
					}
					for pol := 0; pol <= 2; pol += 2 {
						ops := []model.Op{{K: "regnode", N: "n", NT: fmtT}, {K: "regnode", N: "alt", NT: sinkT}}
						for k := 0; k < n; k++ {
							ops = append(ops, model.Op{K: "regnode", N: fmt.Sprintf("s%d", k), NT: sinkT})
						}
						for k := 0; k < n; k++ {
							ops = append(ops, model.Op{K: "regpipe", ET: "A", P: fmt.Sprintf("p%d", k), IDs: []string{"n", fmt.Sprintf("s%d", k)}})
						}
						rm := model.Op{K: "rmpipe", ET: "A", P: fmt.Sprintf("p%d", i)}
						if rmKind == 1 {
							rm.K = "rpan"
						}
						ops = append(ops, rm,
							model.Op{K: "regpipe", ET: "A", P: fmt.Sprintf("p%d", j), IDs: []string{"n", "alt"}, Pol: pol})
						if third := (j + 1) % n; third != i && third != j {
							ops = append(ops, model.Op{K: "regpipe", ET: "A", P: fmt.Sprintf("p%d", third), IDs: []string{"n", "alt"}})
						}
						ops = append(ops, model.Op{K: "regnode", N: fmt.Sprintf("s%d", i), NT: sinkT},
							model.Op{K: "regpipe", ET: "A", P: fmt.Sprintf("p%d", i), IDs: []string{"n", fmt.Sprintf("s%d", i)}})
						ids := []string{"n", "alt"}
						for k := 0; k < n; k++ {
							ids = append(ids, fmt.Sprintf("s%d", k))
						}
						var msg string
						func() {
							defer func() {
								if r := recover(); r != nil {
									msg = fmt.Sprintf("a registry call panicked: %v", r)
								}
							}()
							msg, _ = run(nil, ops, []string{"A"}, ids)
						}()
						if msg != "" {
							stats.Violation("TestC07RemoveThenOverwrite", map[string]interface{}{"ops": ops, "history": model.Describe(ops), "message": msg})
							t.Fatalf("VIOLATION C07: %s\nhistory: %s", msg, model.Describe(ops))
						}
						sec.Case(n >= 3, fmt.Sprintf("pipelines=%d remove=p%d(kind %d) overwrite=p%d pol=%d", n, i, rmKind, j, pol), fmt.Sprintf("pipelines=%d", n))
					}
				}
			}
		}
	}
}
