// C07 — overwrite policy: DenyOverwrite is sticky, AllowOverwrite swaps atomically.
package c07

import (
	"encoding/json"
	"fmt"
	"testing"

	"github.com/hashicorp/eventlogger"
	"pgregory.net/rapid"
	"verif/harness/internal/enum"
	"verif/harness/internal/model"
	"verif/harness/internal/stats"
)

func TestMain(m *testing.M) { stats.Main(m, "C07") }

const ruleEnum = "all sequences of length 1..depth over (a) {RegisterNode n (fresh object or the same object again) with policy default/allow/deny/INVALID, RemoveNode n, RegisterPipeline p=[n s], RemovePipeline p} and (b) {RegisterNode m, RegisterNode s (fresh marker instances), RegisterPipeline p=[m s] with the 4 policies, RemovePipeline p, RemovePipelineAndNodes p} (exhaustive); oracle = policy automaton (Deny sticky until removal, Allow/default re-registrable with the new policy applying, invalid rejected without change) + which instance versions a probe Send reaches (old pipelines keep the old node instance); non-trivial = a registration attempt hit a Deny; distinct by construction"
const ruleRandom = "rapid histories mixing node and pipeline policies over 3 node ids, 2 pipeline ids, 2 types; same oracle after every step"

const (
	fmtT  = int(eventlogger.NodeTypeFormatter)
	sinkT = int(eventlogger.NodeTypeSink)
)

func run(pre, ops []model.Op, ets, ids []string) (string, *model.Checker) {
	c := model.NewChecker()
	for _, op := range pre {
		c.Apply(op)
	}
	for i, op := range ops {
		if msg := c.Apply(op); msg != "" {
			return fmt.Sprintf("step %d: %s", i, msg), c
		}
		if msg := c.CheckState(ets, ids, nil); msg != "" {
			return fmt.Sprintf("after step %d: %s", i, msg), c
		}
	}
	return "", c
}

func classes(c *model.Checker) []string {
	var cl []string
	if c.DenyHits > 0 {
		cl = append(cl, "deny_then_attempt")
	}
	if c.Overwrites > 0 {
		cl = append(cl, "overwrite")
	}
	if c.Removals > 0 {
		cl = append(cl, "removal")
	}
	return cl
}

func TestC07Exhaustive(t *testing.T) {
	if rp := stats.ReplayFile("TestC07Exhaustive"); rp != nil {
		var pre, ops []model.Op
		b, _ := json.Marshal(rp["pre"])
		_ = json.Unmarshal(b, &pre)
		b, _ = json.Marshal(rp["ops"])
		_ = json.Unmarshal(b, &ops)
		if msg, _ := run(pre, ops, []string{"A"}, []string{"n", "m", "s"}); msg != "" {
			t.Fatalf("VIOLATION C07: %s\nhistory: %s", msg, model.Describe(append(pre, ops...)))
		}
		return
	}
	sec := stats.Sec("exhaustive", ruleEnum)
	depth := stats.EnvInt("C07_DEPTH", 5)
	sec.Set("depth", depth)
	shard, n := stats.Shard()
	var nodeAlpha, pipeAlpha []model.Op
	for pol := 0; pol < 4; pol++ {
		nodeAlpha = append(nodeAlpha, model.Op{K: "regnode", N: "n", NT: fmtT, Pol: pol})
		nodeAlpha = append(nodeAlpha, model.Op{K: "regnode", N: "n", NT: fmtT, Pol: pol, Reuse: true}) // the same node object again
		pipeAlpha = append(pipeAlpha, model.Op{K: "regpipe", ET: "A", P: "p", IDs: []string{"m", "s"}, Pol: pol})
	}
	nodeAlpha = append(nodeAlpha, model.Op{K: "rmnode", N: "n"}, model.Op{K: "regpipe", ET: "A", P: "p", IDs: []string{"n", "s"}}, model.Op{K: "rmpipe", ET: "A", P: "p"})
	pipeAlpha = append(pipeAlpha, model.Op{K: "regnode", N: "m", NT: fmtT}, model.Op{K: "regnode", N: "s", NT: sinkT}, model.Op{K: "rmpipe", ET: "A", P: "p"}, model.Op{K: "rpan", ET: "A", P: "p"})
	type job struct {
		pre, alpha []model.Op
	}
	jobs := []job{
		{[]model.Op{{K: "regnode", N: "s", NT: sinkT}}, nodeAlpha},
		{[]model.Op{{K: "regnode", N: "m", NT: fmtT}, {K: "regnode", N: "s", NT: sinkT}}, pipeAlpha},
	}
	for _, j := range jobs {
		ok := enum.Sequences(j.alpha, depth, shard, n, func(ops []model.Op) bool {
			msg, c := run(j.pre, ops, []string{"A"}, []string{"n", "m", "s"})
			if msg != "" {
				cp := append([]model.Op(nil), ops...)
				stats.Violation("TestC07Exhaustive", map[string]interface{}{"pre": j.pre, "ops": cp, "history": model.Describe(append(append([]model.Op(nil), j.pre...), cp...)), "message": msg})
				t.Errorf("VIOLATION C07: %s\nhistory: %s", msg, model.Describe(cp))
				return false
			}
			sec.CaseEnum(c.DenyHits > 0, func() string { return model.Describe(ops) }, classes(c)...)
			return true
		})
		if !ok {
			sec.NotExhaustive()
			return
		}
	}
}

func TestC07Random(t *testing.T) {
	sec := stats.Sec("random", ruleRandom)
	maxOps := stats.EnvInt("C07_MAXOPS", 25)
	// families of names that are distinct strings but collide under careless normalisation (surrounding white space,
	// case, a separator moved between event type and pipeline id)
	ets := []string{"A", "B", "A/x", "A "}
	ids := []string{"n", "m", "s", "n ", "S"}
	typeOf := map[string]int{"n": fmtT, "m": int(eventlogger.NodeTypeFormatterFilter), "s": sinkT, "n ": fmtT, "S": sinkT}
	pidPool := []string{"p", "q", "p", "q", "x/p", "p ", " p", "P"}
	opGen := rapid.Custom(func(t *rapid.T) model.Op {
		switch rapid.SampledFrom([]int{0, 0, 0, 1, 1, 1, 2, 3, 4, 5}).Draw(t, "k") {
		case 5:
			// thresholds above, at and below the number of pipelines: they decide Send's error, never who processes the event
			return model.Op{K: rapid.SampledFrom([]string{"thr", "thrsinks"}).Draw(t, "thrKind"), ET: rapid.SampledFrom(ets).Draw(t, "thrET"), V: rapid.SampledFrom([]int{0, 1, 2, 3, 7}).Draw(t, "thrV")}
		case 0:
			id := rapid.SampledFrom(ids).Draw(t, "n")
			return model.Op{K: "regnode", N: id, NT: typeOf[id], Pol: rapid.IntRange(0, 3).Draw(t, "pol"), Dress: rapid.SampledFrom([]int{0, 0, 1, 2, 3, 4}).Draw(t, "dress"), Reuse: rapid.IntRange(0, 3).Draw(t, "reuse") == 0,
				Shape: rapid.SampledFrom([]int{0, 0, 1, 2, 3, 4, 5}).Draw(t, "shape"), CloseErr: rapid.IntRange(0, 3).Draw(t, "closeErr") == 0, CloseKind: rapid.IntRange(0, 2).Draw(t, "closeKind")}
		case 1:
			f := rapid.SampledFrom([]string{"n", "m", "n "}).Draw(t, "f")
			pids := []string{f, rapid.SampledFrom([]string{"s", "s", "S"}).Draw(t, "sinkID")}
			if rapid.IntRange(0, 3).Draw(t, "listedTwice") == 0 {
				pids = []string{f, f, pids[1]} // a node id may be listed more than once
			}
			return model.Op{K: "regpipe", ET: rapid.SampledFrom(ets).Draw(t, "et"), P: rapid.SampledFrom(pidPool).Draw(t, "p"),
				IDs: pids, Pol: rapid.IntRange(0, 3).Draw(t, "ppol"), Dress: rapid.SampledFrom([]int{0, 0, 1, 2, 3, 4}).Draw(t, "pdress")}
		case 2:
			return model.Op{K: "rmpipe", ET: rapid.SampledFrom(ets).Draw(t, "et"), P: rapid.SampledFrom(pidPool).Draw(t, "p")}
		case 3:
			return model.Op{K: "rpan", ET: rapid.SampledFrom(ets).Draw(t, "et"), P: rapid.SampledFrom(pidPool).Draw(t, "p"), CtxDone: rapid.IntRange(0, 3).Draw(t, "ctxDone") == 0}
		default:
			return model.Op{K: "rmnode", N: rapid.SampledFrom(ids).Draw(t, "n"), CtxDone: rapid.IntRange(0, 2).Draw(t, "ctxDone") == 0}
		}
	})
	rapid.Check(t, func(t *rapid.T) {
		ops := rapid.SliceOfN(opGen, 1, maxOps).Draw(t, "ops")
		ops = model.Maintain(t, ops, func(id string) int { return typeOf[id] }, "S")
		var pre []model.Op
		if d := rapid.SampledFrom([]int{0, 0, 1, 2, 3}).Draw(t, "brokerOptions"); d != 0 {
			pre = []model.Op{{K: "newbroker", V: d}}
		}
		msg, c := run(pre, ops, ets, ids)
		if msg != "" {
			t.Fatalf("VIOLATION C07: %s\nhistory: %s", msg, model.Describe(append(pre, ops...)))
		}
		sec.Case(c.DenyHits > 0, model.Describe(append(pre, ops...)), classes(c)...)
	})
}
