package c07

import (
	"context"
	"fmt"
	"testing"
	"time"

	"github.com/hashicorp/eventlogger"
	"pgregory.net/rapid"
	"verif/harness/internal/simul"
	"verif/harness/internal/stats"
)

const rulePol = "rapid: 2-4 registrars released at the same instant register the same pipeline ID (each version with its own marker sink) or the same node ID, 1-2 of them with DenyOverwrite and the rest with the default/AllowOverwrite, nodes whose Type() yields; 20-60 rounds per case on fresh brokers; oracle (holds for every sequential order of the calls) = exactly one DenyOverwrite registrar succeeds, the surviving registration is that registrar's (a Send reaches its marker sink once and nobody else's), and a later registration under the ID fails; non-trivial = >=3 registrars or 2 denying ones; distinct = configuration"

func TestC07ConcurrentPolicy(t *testing.T) {
	sec := stats.Sec("concurrent_policy", rulePol)
	rapid.Check(t, func(t *rapid.T) {
		kind := rapid.SampledFrom([]string{"pipeline", "pipeline", "node"}).Draw(t, "kind")
		g := rapid.IntRange(2, 4).Draw(t, "registrars")
		ndeny := rapid.IntRange(1, 2).Draw(t, "denying")
		if ndeny > g {
			ndeny = g
		}
		explicitAllow := rapid.Bool().Draw(t, "explicitAllow")
		rounds := rapid.SampledFrom([]int{20, 60}).Draw(t, "rounds")
		d := fmt.Sprintf("kind=%s registrars=%d denying=%d explicitAllow=%v rounds=%d", kind, g, ndeny, explicitAllow, rounds)
		ctx := context.Background()
		for r := 0; r < rounds; r++ {
			b, _ := eventlogger.NewBroker()
			f, m := simul.New("f", eventlogger.NodeTypeFilter), simul.New("m", eventlogger.NodeTypeFormatter)
			_ = b.RegisterNode("f", f)
			_ = b.RegisterNode("m", m)
			sinks := make([]*simul.Node, g)
			errs := make([]error, g)
			fs := make([]func(), g)
			for i := 0; i < g; i++ {
				i := i
				sinks[i] = simul.New(fmt.Sprintf("s%d", i), eventlogger.NodeTypeSink)
				deny := i < ndeny
				if kind == "pipeline" {
					sid := eventlogger.NodeID(fmt.Sprintf("s%d", i))
					_ = b.RegisterNode(sid, sinks[i])
					p := eventlogger.Pipeline{PipelineID: "P", EventType: "T", NodeIDs: []eventlogger.NodeID{"f", "m", sid}}
					fs[i] = func() {
						switch {
						case deny:
							errs[i] = b.RegisterPipeline(p, eventlogger.WithPipelineRegistrationPolicy(eventlogger.DenyOverwrite))
						case explicitAllow:
							errs[i] = b.RegisterPipeline(p, eventlogger.WithPipelineRegistrationPolicy(eventlogger.AllowOverwrite))
						default:
							errs[i] = b.RegisterPipeline(p)
						}
					}
				} else {
					fs[i] = func() {
						switch {
						case deny:
							errs[i] = b.RegisterNode("n", sinks[i], eventlogger.WithNodeRegistrationPolicy(eventlogger.DenyOverwrite))
						case explicitAllow:
							errs[i] = b.RegisterNode("n", sinks[i], eventlogger.WithNodeRegistrationPolicy(eventlogger.AllowOverwrite))
						default:
							errs[i] = b.RegisterNode("n", sinks[i])
						}
					}
				}
			}
			if !simul.Burst(20*time.Second, fs...) {
				fmt.Printf("\nINCONCLUSIVE-MARK watchdog: simultaneous registrations did not return\n")
				t.Skip("inconclusive")
			}
			winner, nwin := -1, 0
			for i := 0; i < ndeny; i++ {
				if errs[i] == nil {
					winner = i
					nwin++
				}
			}
			if nwin != 1 {
				t.Fatalf("VIOLATION C07: %d of the %d simultaneous DenyOverwrite registrations succeeded (round %d); in every order exactly one does\ncase: %s", nwin, ndeny, r, d)
			}
			var later error
			if kind == "pipeline" {
				extra := simul.New("extra", eventlogger.NodeTypeSink)
				_ = b.RegisterNode("extra", extra)
				later = b.RegisterPipeline(eventlogger.Pipeline{PipelineID: "P", EventType: "T", NodeIDs: []eventlogger.NodeID{"m", "extra"}})
			} else {
				later = b.RegisterNode("n", simul.New("extra", eventlogger.NodeTypeSink))
				if err := b.RegisterPipeline(eventlogger.Pipeline{PipelineID: "P", EventType: "T", NodeIDs: []eventlogger.NodeID{"m", "n"}}); err != nil {
					t.Fatalf("harness: %v", err)
				}
			}
			if later == nil {
				t.Fatalf("VIOLATION C07: a registration under an ID that was registered with DenyOverwrite succeeded (round %d)\ncase: %s", r, d)
			}
			if _, err := b.Send(ctx, "T", "payload"); err != nil {
				t.Fatalf("VIOLATION C07: Send through the surviving registration failed: %v\ncase: %s", err, d)
			}
			for i, s := range sinks {
				n := s.Processed.Load()
				if i == winner && n != 1 {
					t.Fatalf("VIOLATION C07: the DenyOverwrite registration that succeeded (registrar %d) is not the one in effect: its sink got the event %d times (round %d)\ncase: %s", i, n, r, d)
				}
				if i != winner && n != 0 {
					t.Fatalf("VIOLATION C07: registrar %d's version received the event although registrar %d's DenyOverwrite registration succeeded (round %d)\ncase: %s", i, winner, r, d)
				}
			}
		}
		sec.Case(g >= 3 || ndeny == 2, d, "kind="+kind)
	})
}
