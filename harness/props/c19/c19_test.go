// C19 — stock nodes are safe to share across pipelines and goroutines.
package c19

import (
	"bytes"
	"context"
	"encoding/json"
	"fmt"
	wrapping "github.com/hashicorp/go-kms-wrapping/v2"
	"io"
	"net/url"
	"os"
	"path/filepath"
	"reflect"
	"sort"
	"strings"
	"sync"
	"sync/atomic"
	"testing"
	"time"

	"github.com/hashicorp/eventlogger"
	"github.com/hashicorp/eventlogger/filters/encrypt"
	"github.com/hashicorp/eventlogger/filters/gated"
	"github.com/hashicorp/eventlogger/formatter_filters/cloudevents"
	"github.com/hashicorp/eventlogger/sinks/channel"
	"github.com/hashicorp/eventlogger/sinks/writer"
	"pgregory.net/rapid"
	"verif/harness/internal/cryptoref"
	"verif/harness/internal/stats"
)

func TestMain(m *testing.M) {
	_ = time.Local.String()
	stats.Main(m, "C19")
}

const rule = "rapid: compositions of 1-4 pipelines on 1-2 event types from the stock catalogue {Filter, encrypt.Filter, gated.Filter (wired to the broker or not) | JSONFormatter, JSONFormatterFilter, cloudevents json/text (with signer) | FileSink (size rotation), several FileSink nodes naming one file, FileSink whose directory cannot be created, writer.Sink, ChannelSink}, node instances shared between pipelines by a drawn share group; 2-8 sender goroutines x 20-150 Sends (tagged struct / map / gateable payloads) while control goroutines call Broker.Reopen, encrypt.Filter.Rotate, cloudevents Rotate, gated FlushAll and the threshold setters; built with -race; oracle = no race report with a library frame (classified by the driver against the known findings), no panic, every sink output is a sequence of complete JSON documents and their number equals the sink completions reported by Status; non-trivial = >=2 pipelines on one type, one of them with a mutating node (encrypt/gated) behind another node; distinct = composition descriptor"

var filterKinds = []string{"filter", "encrypt", "gated", "gatedNoBroker"}
var fmtKinds = []string{"json", "jsonff", "ce-json", "ce-text"}
var sinkKinds = []string{"file", "writer", "chan"}

type pipeSpec struct {
	ET      string
	Filters []string
	Fmt     string
	Sink    string
	Share   int // instances are shared between pipelines with the same share group
}

func (p pipeSpec) String() string {
	return fmt.Sprintf("%s:[%s %s %s]#%d", p.ET, strings.Join(p.Filters, " "), p.Fmt, p.Sink, p.Share)
}

// P is the tagged payload.
type P struct {
	ID     string `class:"public"`
	User   string `class:"sensitive"`
	Secret []byte `class:"secret"`
	Digest string `class:"sensitive,hmac-sha256"`
	Extra  map[string]interface{}
	N      int
}

// Owner is a type the encrypt filters are told to ignore (IgnoreTypes lists *Owner); the payloads carry a *Owner
// inside a map[string]interface{}, where the ignore list is not consulted.
type Owner struct{ Name string }

// realET: the second event type of the compositions is an ordinary Go string that needs care when it is written into a
// document: control characters, DEL, a quote, invalid UTF-8 and a non-printable rune above U+FFFF.
func realET(s string) eventlogger.EventType {
	if s == "B" {
		return "B\a\v\x7f\"\xe9 \U000e0001"
	}
	return eventlogger.EventType(s)
}

// rotationEvent implements encrypt.RotateWrapper (no new wrapper, new salt and info).
type rotationEvent struct {
	Note       string
	salt, info []byte
}

func (r *rotationEvent) Wrapper() wrapping.Wrapper { return nil }
func (r *rotationEvent) HmacSalt() []byte          { return r.salt }
func (r *rotationEvent) HmacInfo() []byte          { return r.info }

// plainBuf is deliberately NOT synchronised: writer.Sink's own lock must serialise writes.
type lockedBuf struct {
	b bytes.Buffer
}

func (l *lockedBuf) Write(p []byte) (int, error) { return l.b.Write(p) }

func (l *lockedBuf) Bytes() []byte { return append([]byte(nil), l.b.Bytes()...) }

func formatKey(k string) string {
	switch k {
	case "ce-json":
		return string(cloudevents.FormatJSON)
	case "ce-text":
		return string(cloudevents.FormatText)
	}
	return eventlogger.JSONFormat
}

// countDocs parses b as a stream of JSON documents.
func countDocs(b []byte) (int, error) {
	dec := json.NewDecoder(bytes.NewReader(b))
	n := 0
	for {
		var v interface{}
		err := dec.Decode(&v)
		if err == io.EOF {
			return n, nil
		}
		if err != nil {
			return n, err
		}
		if _, ok := v.(map[string]interface{}); !ok {
			return n, fmt.Errorf("document %d is not a JSON object", n)
		}
		n++
	}
}

type sinkObs struct {
	id    string
	kind  string
	dir   string
	buf   *lockedBuf
	count *atomic.Int64
}

var pairSeen sync.Map

// runComp builds the composition, runs senders and control goroutines, and returns a violation ("" = ok).
type compResult struct {
	desc           string
	hasGated       bool
	mutatingBehind bool
	perType        map[string]int
	nEnc, nCE      int
}

func runComp(t interface{ Fatalf(string, ...any) }, root string, caseNo int, specs []pipeSpec, senders, per int, controls bool) compResult {
	src, _ := url.Parse("https://example.test/src")
	var descParts []string
	for _, s := range specs {
		descParts = append(descParts, s.String())
	}
	desc := fmt.Sprintf("%s senders=%d sends=%d controls=%v", strings.Join(descParts, " | "), senders, per, controls)

	b, _ := eventlogger.NewBroker()
	insts := map[string]eventlogger.Node{}
	var encs []*encrypt.Filter
	var ces []*cloudevents.FormatterFilter
	var gats []*gated.Filter
	sinks := map[string]*sinkObs{}
	alias := map[string]string{} // node id -> key of the observation it contributes to
	needStdout := false
	var stopDrain []chan struct{}
	var drainWG sync.WaitGroup
	keys := []cryptoref.Key{cryptoref.NewKey(1), cryptoref.NewKey(2)}
	sharedSalt, sharedInfo := []byte("s"), []byte("i")
	get := func(kind string, share int, formatKeyName string) (string, eventlogger.Node) {
		id := fmt.Sprintf("%s-%d", kind, share)
		if kind == "file" || kind == "writer" || kind == "chan" || kind == "filetwin" || kind == "filebroken" || kind == "filestdout" {
			id += "-" + formatKeyName
		}
		if n, ok := insts[id]; ok {
			return id, n
		}
		var n eventlogger.Node
		switch kind {
		case "filter":
			n = &eventlogger.Filter{Predicate: func(e *eventlogger.Event) (bool, error) { return true, nil }}
		case "encrypt":
			// every encrypt filter of the composition is configured from the same salt / info values, as an
			// application that builds its filters from one configuration struct does
			f := &encrypt.Filter{Wrapper: keys[0].Wrapper(), HmacSalt: sharedSalt, HmacInfo: sharedInfo, IgnoreTypes: []reflect.Type{reflect.TypeOf(&Owner{})}}
			encs = append(encs, f)
			n = f
		case "gated":
			f := &gated.Filter{Broker: b}
			gats = append(gats, f)
			n = f
		case "gatedNoBroker":
			f := &gated.Filter{}
			gats = append(gats, f)
			n = f
		case "json":
			n = &eventlogger.JSONFormatter{}
		case "jsonff":
			n = &eventlogger.JSONFormatterFilter{Predicate: func(interface{}) (bool, error) { return true, nil }}
		case "ce-json", "ce-text":
			f := &cloudevents.FormatterFilter{Source: src, Format: cloudevents.FormatJSON, SignEventTypes: []string{"A"},
				Signer: func(_ context.Context, b []byte) (string, error) { return fmt.Sprintf("sig%d", len(b)), nil }}
			if kind == "ce-text" {
				f.Format = cloudevents.FormatText
			}
			ces = append(ces, f)
			n = f
		case "file":
			dir := filepath.Join(root, fmt.Sprintf("c%d-%s", caseNo, id))
			n = &eventlogger.FileSink{Path: dir, FileName: "out.log", Format: formatKeyName, MaxBytes: 4000, MaxFiles: 0}
			sinks[id] = &sinkObs{id: id, kind: "file", dir: dir}
		case "filetwin":
			// a FileSink node of its own (never shared) that names the same file as every other "filetwin" sink of this
			// format in the composition: two pipelines configured to log into one file
			obsKey := "filetwin-" + formatKeyName
			dir := filepath.Join(root, fmt.Sprintf("c%d-%s", caseNo, obsKey))
			n = &eventlogger.FileSink{Path: dir, FileName: "shared.log", Format: formatKeyName}
			if sinks[obsKey] == nil {
				sinks[obsKey] = &sinkObs{id: obsKey, kind: "file", dir: dir}
			}
			alias[id] = obsKey
		case "filestdout":
			// FileSink on the special path /dev/stdout (os.Stdout points at /dev/null for the duration of the case)
			n = &eventlogger.FileSink{Path: "/dev/stdout", Format: formatKeyName}
			needStdout = true
		case "filebroken":
			// a FileSink whose directory cannot be created (its parent is a regular file): every Process and Reopen fails
			blocker := filepath.Join(root, fmt.Sprintf("c%d-blocker", caseNo))
			_ = os.WriteFile(blocker, []byte("x"), 0o600)
			n = &eventlogger.FileSink{Path: filepath.Join(blocker, id), FileName: "never.log", Format: formatKeyName}
		case "writer":
			buf := &lockedBuf{}
			n = &writer.Sink{Format: formatKeyName, Writer: buf}
			sinks[id] = &sinkObs{id: id, kind: "writer", buf: buf}
		case "chan":
			ch := make(chan *eventlogger.Event, 4)
			cs, _ := channel.NewChannelSink(ch, 10*time.Second)
			cnt := &atomic.Int64{}
			stop := make(chan struct{})
			stopDrain = append(stopDrain, stop)
			drainWG.Add(1)
			go func() {
				defer drainWG.Done()
				for {
					select {
					case <-ch:
						cnt.Add(1)
					case <-stop:
						for {
							select {
							case <-ch:
								cnt.Add(1)
							default:
								return
							}
						}
					}
				}
			}()
			n = cs
			sinks[id] = &sinkObs{id: id, kind: "chan", count: cnt}
		}
		insts[id] = n
		if err := b.RegisterNode(eventlogger.NodeID(id), n); err != nil {
			t.Fatalf("harness: RegisterNode(%s): %v", id, err)
		}
		return id, n
	}
	hasGated := false
	mutatingBehind := false
	perType := map[string]int{}
	for i, ps := range specs {
		var ids []eventlogger.NodeID
		var kinds []string
		for _, fk := range ps.Filters {
			id, _ := get(fk, ps.Share, "")
			ids = append(ids, eventlogger.NodeID(id))
			kinds = append(kinds, fk)
			if fk == "gated" || fk == "gatedNoBroker" {
				hasGated = true
			}
		}
		id, _ := get(ps.Fmt, ps.Share, "")
		ids = append(ids, eventlogger.NodeID(id))
		kinds = append(kinds, ps.Fmt)
		sinkShare := ps.Share
		if ps.Sink == "filetwin" {
			sinkShare = 1000 + i // one node per pipeline
		}
		id, _ = get(ps.Sink, sinkShare, formatKey(ps.Fmt))
		ids = append(ids, eventlogger.NodeID(id))
		kinds = append(kinds, ps.Sink)
		for k := 1; k < len(kinds); k++ {
			pairSeen.Store(kinds[k-1]+">"+kinds[k], true)
			if k >= 1 && (kinds[k] == "encrypt" || strings.HasPrefix(kinds[k], "gated")) {
				mutatingBehind = true
			}
		}
		if len(ps.Filters) > 0 && (ps.Filters[0] == "encrypt" || strings.HasPrefix(ps.Filters[0], "gated")) && i > 0 {
			mutatingBehind = true // behind the root of a sibling pipeline in range order
		}
		if err := b.RegisterPipeline(eventlogger.Pipeline{PipelineID: eventlogger.PipelineID(fmt.Sprintf("p%d", i)), EventType: realET(ps.ET), NodeIDs: ids}); err != nil {
			t.Fatalf("harness: RegisterPipeline %v: %v", ids, err)
		}
		perType[ps.ET]++
	}
	ctx := context.Background()
	if needStdout {
		if dn, err := os.OpenFile("/dev/null", os.O_WRONLY, 0); err == nil {
			saved := os.Stdout
			os.Stdout = dn
			defer func() { os.Stdout = saved; dn.Close() }()
		}
	}
	var wg sync.WaitGroup
	completions := sync.Map{} // sink id -> *atomic.Int64
	for id := range sinks {
		completions.Store(id, &atomic.Int64{})
	}
	for nodeID, obsKey := range alias {
		c, _ := completions.Load(obsKey)
		completions.Store(nodeID, c)
	}
	stop := make(chan struct{})
	var cwg sync.WaitGroup
	if controls {
		ctl := func(f func(i int)) {
			cwg.Add(1)
			go func() {
				defer cwg.Done()
				for i := 0; ; i++ {
					select {
					case <-stop:
						return
					default:
					}
					f(i)
					time.Sleep(50 * time.Microsecond)
				}
			}()
		}
		ctl(func(int) { _ = b.Reopen(ctx) })
		ctl(func(i int) { _ = b.SetSuccessThreshold("A", i%2); _ = b.SetSuccessThresholdSinks(realET("B"), 0) })
		if len(encs) > 0 {
			ctl(func(i int) {
				for _, f := range encs {
					f.Rotate(encrypt.WithWrapper(keys[i%2].Wrapper()), encrypt.WithSalt([]byte{byte(i)}))
				}
			})
		}
		if len(ces) > 0 {
			ctl(func(i int) {
				for _, f := range ces {
					_ = f.Rotate(func(_ context.Context, b []byte) (string, error) { return fmt.Sprintf("rot%d-%d", i, len(b)), nil })
				}
			})
		}
		if len(gats) > 0 {
			ctl(func(int) {
				for _, f := range gats {
					_ = f.FlushAll(ctx)
				}
			})
		}
	}
	var senderSaw atomic.Value
	for s := 0; s < senders; s++ {
		wg.Add(1)
		go func(s int) {
			defer wg.Done()
			for i := 0; i < per; i++ {
				et := "A"
				if perType["B"] > 0 && (s+i)%3 == 0 {
					et = "B"
				}
				var payload interface{}
				var owner *Owner
				switch {
				case hasGated && i%2 == 0:
					payload = &gated.Payload{ID: fmt.Sprintf("g%d", s), Flush: i%10 == 8, Header: map[string]interface{}{"user": "alice"}, Detail: map[string]interface{}{"i": i}}
				case len(encs) > 0 && i%17 == 5:
					// a key-rotation event (same-length salt / info): consumed by the encrypt filters of its type
					payload = &rotationEvent{salt: []byte{byte('a' + i%26)}, info: []byte{byte('A' + s%26)}}
				case i%23 == 7:
					// a large event: the formatted document is about 20, 60 or 100 KB
					payload = map[string]interface{}{"blob": strings.Repeat("y", []int{60000, 20000, 100000, 60000}[(s+i/23)%4]), "n": i}
				case i%3 == 1:
					payload = map[string]interface{}{"name": "bob", "n": i, "list": []string{"a", "b"}}
				default:
					owner = &Owner{Name: "carol"}
					payload = &P{ID: fmt.Sprintf("id-%d-%d", s, i), User: "alice", Secret: []byte("hunter2"), Digest: "d", Extra: map[string]interface{}{"k": "v", "owner": owner}, N: i}
				}
				st, _ := b.Send(ctx, realET(et), payload)
				if owner != nil && owner.Name != "carol" {
					senderSaw.CompareAndSwap(nil, fmt.Sprintf("after Send returned the sender's own payload was modified: Extra[\"owner\"].Name = %q, it was \"carol\"", owner.Name))
				}
				for _, id := range st.CompleteSinks() {
					if c, ok := completions.Load(string(id)); ok {
						c.(*atomic.Int64).Add(1)
					}
				}
			}
		}(s)
	}
	done := make(chan struct{})
	go func() { wg.Wait(); close(done) }()
	select {
	case <-done:
	case <-time.After(120 * time.Second):
		t.Fatalf("VIOLATION C19: senders did not finish within 120s (deadlock)\ncase: %s", desc)
	}
	close(stop)
	cwg.Wait()
	if m := senderSaw.Load(); m != nil {
		t.Fatalf("VIOLATION C19: %s (a pipeline's private copy must not write to the event the other pipelines and the sender hold)\ncase: %s", m, desc)
	}
	// composites emitted by control-goroutine FlushAll go through Send again: their completions are not
	// seen by the senders, so for compositions with a broker-wired gated filter only ">=" holds
	loose := false
	for _, g := range gats {
		if g.Broker != nil {
			loose = true
		}
		_ = g.FlushAll(ctx)
	}
	for _, sd := range stopDrain {
		close(sd)
	}
	drainWG.Wait()
	var ids []string
	for id := range sinks {
		ids = append(ids, id)
	}
	sort.Strings(ids)
	for _, id := range ids {
		so := sinks[id]
		c, _ := completions.Load(id)
		want := int(c.(*atomic.Int64).Load())
		got := 0
		switch so.kind {
		case "chan":
			got = int(so.count.Load())
		case "writer", "file":
			var data []byte
			if so.kind == "writer" {
				data = so.buf.Bytes()
			} else {
				ents, _ := os.ReadDir(so.dir)
				var names []string
				for _, e := range ents {
					names = append(names, e.Name())
				}
				sort.Strings(names)
				for _, n := range names {
					bb, _ := os.ReadFile(filepath.Join(so.dir, n))
					if _, derr := countDocs(bb); derr != nil {
						t.Fatalf("VIOLATION C19: file %s of sink %s is not a sequence of complete JSON documents: %v\ncase: %s", n, id, derr, desc)
					}
					data = append(data, bb...)
				}
			}
			n, derr := countDocs(data)
			if derr != nil {
				t.Fatalf("VIOLATION C19: output of sink %s is corrupted: %v\ncase: %s", id, derr, desc)
			}
			got = n
		}
		if got < want || (!loose && got != want) {
			t.Fatalf("VIOLATION C19: sink %s holds %d documents, Status reported %d successful completions\ncase: %s", id, got, want, desc)
		}
	}
	return compResult{desc: desc, hasGated: hasGated, mutatingBehind: mutatingBehind, perType: perType, nEnc: len(encs), nCE: len(ces)}
}

func TestC19SharedNodes(t *testing.T) {
	sec := stats.Sec("shared_nodes", rule)
	root, err := os.MkdirTemp("", "verif-c19-")
	if err != nil {
		t.Skip(err.Error())
	}
	defer os.RemoveAll(root)
	caseNo := 0
	rapid.Check(t, func(t *rapid.T) {
		caseNo++
		np := rapid.IntRange(1, 4).Draw(t, "pipelines")
		var specs []pipeSpec
		for i := 0; i < np; i++ {
			ps := pipeSpec{
				ET:      rapid.SampledFrom([]string{"A", "A", "A", "B"}).Draw(t, "et"),
				Filters: rapid.SliceOfN(rapid.SampledFrom(filterKinds), 0, 2).Draw(t, "filters"),
				Fmt:     rapid.SampledFrom(fmtKinds).Draw(t, "fmt"),
				Sink:    rapid.SampledFrom([]string{"file", "file", "writer", "writer", "chan", "chan", "filetwin", "filetwin", "filebroken", "filestdout"}).Draw(t, "sink"),
				Share:   rapid.IntRange(0, 1).Draw(t, "share"),
			}
			specs = append(specs, ps)
		}
		senders := rapid.IntRange(2, 8).Draw(t, "senders")
		per := rapid.IntRange(20, 150).Draw(t, "sendsPerSender")
		controls := rapid.Bool().Draw(t, "controlGoroutines")
		r := runComp(t, root, caseNo, specs, senders, per, controls)
		record(sec, r, np, controls)
	})
}

func record(sec *stats.Section, r compResult, np int, controls bool) {
	multi := false
	for _, n := range r.perType {
		if n >= 2 {
			multi = true
		}
	}
	npairs := 0
	pairSeen.Range(func(_, _ interface{}) bool { npairs++; return true })
	sec.Set("neighbour_pairs_covered", npairs)
	cl := []string{fmt.Sprintf("pipelines=%d", np)}
	if controls {
		cl = append(cl, "control_goroutines")
	}
	if r.hasGated {
		cl = append(cl, "gated")
	}
	if r.nEnc > 0 {
		cl = append(cl, "encrypt")
	}
	if r.nCE > 0 {
		cl = append(cl, "cloudevents")
	}
	sec.Case(multi && r.mutatingBehind, r.desc, cl...)
}

// TestC19Pairs enumerates every ordered pair of node kinds as consecutive nodes of one pipeline and as
// first nodes of two sibling pipelines of one event type (the sibling position is where one pipeline's
// private copy / formatting can race with another pipeline working on the same event).
func TestC19Pairs(t *testing.T) {
	sec := stats.Sec("neighbour_pairs", "exhaustive over ordered pairs of stock node kinds: (filter kind -> filter kind), (filter kind -> formatter kind), (formatter kind -> sink kind) as neighbours in one pipeline, and every (first-node kind, first-node kind) pair of two sibling pipelines on one event type; each composition is run with 4 senders x 60 Sends plus the control goroutines under -race; same oracle as shared_nodes; non-trivial = every composition (two pipelines or a mutating node behind another node)")
	root, err := os.MkdirTemp("", "verif-c19p-")
	if err != nil {
		t.Skip(err.Error())
	}
	defer os.RemoveAll(root)
	var comps [][]pipeSpec
	for _, a := range filterKinds {
		for _, b := range filterKinds {
			comps = append(comps, []pipeSpec{{ET: "A", Filters: []string{a, b}, Fmt: "json", Sink: "writer"}, {ET: "A", Fmt: "json", Sink: "file", Share: 1}})
		}
		for _, f := range fmtKinds {
			comps = append(comps, []pipeSpec{{ET: "A", Filters: []string{a}, Fmt: f, Sink: "file"}, {ET: "A", Fmt: f, Sink: "writer"}})
		}
	}
	for _, f := range fmtKinds {
		for _, k := range sinkKinds {
			comps = append(comps, []pipeSpec{{ET: "A", Fmt: f, Sink: k}, {ET: "A", Filters: []string{"filter"}, Fmt: f, Sink: k, Share: 1}})
		}
	}
	// fixed compositions around sinks that share a file or cannot open
	comps = append(comps,
		[]pipeSpec{{ET: "A", Fmt: "json", Sink: "filebroken"}, {ET: "A", Fmt: "json", Sink: "filebroken", Share: 1}, {ET: "A", Fmt: "json", Sink: "file", Share: 2}},
		[]pipeSpec{{ET: "A", Fmt: "json", Sink: "filetwin"}, {ET: "A", Filters: []string{"filter"}, Fmt: "json", Sink: "filetwin", Share: 1}},
		[]pipeSpec{{ET: "A", Fmt: "json", Sink: "filestdout"}, {ET: "A", Filters: []string{"filter"}, Fmt: "json", Sink: "filestdout"}, {ET: "B", Fmt: "json", Sink: "filestdout"}},
		[]pipeSpec{{ET: "A", Filters: []string{"encrypt"}, Fmt: "json", Sink: "filetwin"}, {ET: "A", Filters: []string{"encrypt"}, Fmt: "json", Sink: "filetwin", Share: 1}, {ET: "A", Fmt: "ce-json", Sink: "filebroken", Share: 2}, {ET: "A", Fmt: "ce-json", Sink: "filebroken", Share: 3}},
	)
	firsts := append(append([]string{}, filterKinds...), fmtKinds...)
	for _, a := range firsts {
		for _, b := range firsts {
			mk := func(k string, share int) pipeSpec {
				for _, f := range fmtKinds {
					if f == k {
						return pipeSpec{ET: "A", Fmt: k, Sink: "writer", Share: share}
					}
				}
				return pipeSpec{ET: "A", Filters: []string{k}, Fmt: "json", Sink: "writer", Share: share}
			}
			comps = append(comps, []pipeSpec{mk(a, 0), mk(b, 1)})
		}
	}
	shard, n := stats.Shard()
	sec.Set("compositions", len(comps))
	for i, specs := range comps {
		if i%n != shard {
			continue
		}
		r := runComp(t, root, 100000+i, specs, 4, 60, true)
		multi := true
		_ = multi
		sec.CaseEnum(true, func() string { return r.desc }, "pair_composition")
	}
}
