package c17

import (
	"context"
	"fmt"
	"testing"
	"time"

	"github.com/hashicorp/eventlogger"
	"github.com/hashicorp/eventlogger/filters/gated"
	"verif/harness/internal/stats"
)

const ruleVolume = "enumeration over the number of simultaneously gated groups N in {8, 255, 256, 257, 1000, 1023, 1024, 1025, 3000, 5000} x Broker set / nil x drain by expiry sweep / FlushAll: N groups are gated, all expire (or FlushAll is called), then every id is used again (one event each) and FlushAll is called; oracle = after the successful sweep / FlushAll nothing remains gated: every group was emitted exactly once (Broker set), and the second generation is emitted exactly once as well, each composite holding exactly its own event (an id that still had a stale group would carry more or never be emitted); non-trivial = N >= 1000; distinct = configuration"

// TestC17ManyGroups: "the memory the filter holds is bounded by the events of unexpired groups", at volume.
func TestC17ManyGroups(t *testing.T) {
	sec := stats.Sec("many_groups", ruleVolume)
	for _, n := range []int{8, 255, 256, 257, 1000, 1023, 1024, 1025, 3000, 5000} {
		for _, broker := range []bool{true, false} {
			for _, drain := range []string{"expiry", "FlushAll"} {
				d := fmt.Sprintf("groups=%d broker=%v drain=%s", n, broker, drain)
				snd := &slowSender{entered: make(chan struct{}, 1), release: make(chan struct{})}
				now := time.Date(2026, 1, 1, 0, 0, 0, 0, time.UTC)
				f := &gated.Filter{Expiration: time.Second, NowFunc: func() time.Time { return now }}
				if broker {
					f.Broker = snd
				}
				ctx := context.Background()
				tok := 0
				gate := func(id string) int {
					tok++
					out, err := f.Process(ctx, &eventlogger.Event{Type: "t", Formatted: map[string][]byte{}, Payload: &cEv{id: id, tok: tok}})
					if err != nil || out != nil {
						stats.Violation("TestC17ManyGroups", map[string]interface{}{"case": d, "message": fmt.Sprintf("gating event %d of id %s: event=%v err=%v", tok, id, out != nil, err)})
						t.Fatalf("VIOLATION C17: gating event %d of id %s failed: event=%v err=%v\ncase: %s", tok, id, out != nil, err, d)
					}
					return tok
				}
				first := map[int]string{}
				for i := 0; i < n; i++ {
					id := fmt.Sprintf("group-%04d", i)
					first[gate(id)] = id
				}
				now = now.Add(2 * time.Second)
				var trigger int
				if drain == "expiry" {
					trigger = gate("trigger")
				} else if err := f.FlushAll(ctx); err != nil {
					t.Fatalf("VIOLATION C17: FlushAll failed: %v\ncase: %s", err, d)
				}
				if broker {
					st := snd.finishedToks()
					for k, id := range first {
						if st[k] != 1 {
							stats.Violation("TestC17ManyGroups", map[string]interface{}{"case": d, "message": fmt.Sprintf("group %s emitted %d times", id, st[k])})
							t.Fatalf("VIOLATION C17: after a successful %s with %d expired groups, group %s was emitted %d time(s), want exactly once\ncase: %s", drain, n, id, st[k], d)
						}
					}
				}
				// second generation: every id again, then FlushAll
				second := map[int]string{}
				for i := 0; i < n; i++ {
					id := fmt.Sprintf("group-%04d", i)
					second[gate(id)] = id
				}
				if err := f.FlushAll(ctx); err != nil {
					t.Fatalf("VIOLATION C17: FlushAll failed: %v\ncase: %s", err, d)
				}
				if broker {
					snd.mu.Lock()
					comps := append([][]int(nil), snd.finished...)
					snd.mu.Unlock()
					seen := map[int]int{}
					for _, c := range comps {
						for _, k := range c {
							seen[k]++
						}
						if len(c) > 1 {
							stats.Violation("TestC17ManyGroups", map[string]interface{}{"case": d, "message": fmt.Sprintf("composite with events %v", c)})
							t.Fatalf("VIOLATION C17: a composite holds the events %v although every group received exactly one event: a group that had been emitted was still gated when its id was used again\ncase: %s", c, d)
						}
					}
					for k, id := range second {
						if seen[k] != 1 {
							stats.Violation("TestC17ManyGroups", map[string]interface{}{"case": d, "message": fmt.Sprintf("second-generation group %s emitted %d times", id, seen[k])})
							t.Fatalf("VIOLATION C17: after FlushAll returned successfully the group of id %s (event %d) was emitted %d time(s): it remains gated\ncase: %s", id, k, seen[k], d)
						}
					}
					if trigger != 0 && seen[trigger] != 1 {
						t.Fatalf("VIOLATION C17: the group of the triggering event was emitted %d time(s) by FlushAll\ncase: %s", seen[trigger], d)
					}
				}
				// nothing may be left: a further FlushAll emits nothing
				before := len(snd.finished)
				if err := f.FlushAll(ctx); err != nil {
					t.Fatalf("VIOLATION C17: FlushAll failed: %v\ncase: %s", err, d)
				}
				if broker && len(snd.finished) != before {
					t.Fatalf("VIOLATION C17: a FlushAll right after a successful FlushAll emitted %d more composite(s): something remained gated\ncase: %s", len(snd.finished)-before, d)
				}
				sec.Case(n >= 1000, d, fmt.Sprintf("broker=%v", broker))
			}
		}
	}
}
