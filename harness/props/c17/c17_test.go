// C17 — gated events do not linger: expiry, FlushAll and Close empty the gate.
package c17

import (
	"encoding/json"
	"fmt"
	"testing"

	"pgregory.net/rapid"
	g "verif/harness/internal/gatedh"
	"verif/harness/internal/stats"
)

func TestMain(m *testing.M) { stats.Main(m, "C17") }

const ruleRandom = "rapid histories over {ev/flush(a|b|c), plain, ticks (<E,=E,>E,1ns,0), FlushAll, Close, broker on/off, armed compose/send failures}; non-trivial = >=2 groups had to be emitted by one Process, or FlushAll/Close with >=2 open groups; distinct = distinct history descriptor"
const ruleEnum = "all sequences of length 1..depth over {ev(a),ev(b),ev(c),tick<E,tick>E,FlushAll,Close} x broker set/unset (exhaustive); non-trivial as above"

func nontrivial(s g.C17Summary) bool { return s.MaxExpiredAtOne >= 2 || s.MaxFlushed >= 2 }

func classes(s g.C17Summary) []string {
	var c []string
	c = append(c, fmt.Sprintf("max_open_groups=%d", s.MaxOpen))
	if s.MaxExpiredAtOne >= 2 {
		c = append(c, "multi_expiry_in_one_process")
	}
	if s.MaxFlushed >= 2 {
		c = append(c, "flushall_with_multiple_groups")
	}
	if s.Dropped > 0 {
		c = append(c, "dropped_without_broker")
	}
	return c
}

func TestC17Random(t *testing.T) {
	sec := stats.Sec("random", ruleRandom)
	maxOps := stats.EnvInt("C17_MAXOPS", 40)
	rapid.Check(t, func(t *rapid.T) {
		cfg, ops := g.GenHistory(t, maxOps, true)
		obs := g.Run(cfg, ops)
		msg, sum := g.CheckC17(obs)
		if msg != "" {
			t.Fatalf("VIOLATION C17: %s\nhistory: %s", msg, g.Describe(cfg, ops))
		}
		sec.Case(nontrivial(sum), g.Describe(cfg, ops), classes(sum)...)
	})
}

var alphabet = []g.Op{
	{K: g.OpEv, ID: "a"}, {K: g.OpEv, ID: "b"}, {K: g.OpEv, ID: "c"},
	{K: g.OpTick, Tick: g.TickHalf}, {K: g.OpTick, Tick: g.TickOver},
	{K: g.OpFlushAll}, {K: g.OpClose},
}

func TestC17Exhaustive(t *testing.T) {
	if rp := stats.ReplayFile("TestC17Exhaustive"); rp != nil {
		replay(t, rp)
		return
	}
	sec := stats.Sec("exhaustive", ruleEnum)
	depth := stats.EnvInt("C17_DEPTH", 5)
	sec.Set("depth", depth)
	sec.Set("alphabet", len(alphabet))
	shard, n := stats.Shard()
	for _, broker := range []bool{true, false} {
		cfg := g.Config{BrokerInit: broker}
		ok := g.Enumerate(alphabet, depth, shard, n, func(ops []g.Op) bool {
			obs := g.Run(cfg, ops)
			msg, sum := g.CheckC17(obs)
			if msg != "" {
				cp := append([]g.Op(nil), ops...)
				b, _ := json.Marshal(cp)
				stats.Violation("TestC17Exhaustive", map[string]interface{}{"cfg": cfg, "ops": json.RawMessage(b), "history": g.Describe(cfg, cp), "message": msg})
				t.Errorf("VIOLATION C17: %s\nhistory: %s", msg, g.Describe(cfg, cp))
				return false
			}
			sec.CaseEnum(nontrivial(sum), func() string { return g.Describe(cfg, ops) }, classes(sum)...)
			return true
		})
		if !ok {
			sec.NotExhaustive()
			return
		}
	}
}

func replay(t *testing.T, rp map[string]interface{}) {
	b, _ := json.Marshal(rp["ops"])
	var ops []g.Op
	if err := json.Unmarshal(b, &ops); err != nil {
		t.Fatalf("bad replay file: %v", err)
	}
	b, _ = json.Marshal(rp["cfg"])
	var cfg g.Config
	_ = json.Unmarshal(b, &cfg)
	obs := g.Run(cfg, ops)
	if msg, _ := g.CheckC17(obs); msg != "" {
		t.Fatalf("VIOLATION C17: %s\nhistory: %s", msg, g.Describe(cfg, ops))
	}
}
