package c17

import (
	"context"
	"fmt"
	"sync"
	"sync/atomic"
	"testing"
	"time"

	"github.com/hashicorp/eventlogger"
	"github.com/hashicorp/eventlogger/filters/gated"
	"pgregory.net/rapid"
	"verif/harness/internal/stats"
)

const ruleSlow = "rapid: 2-4 groups gated and expired; one goroutine's Process starts the expiry sweep and its Broker.Send blocks inside a slow Sender; meanwhile a second goroutine calls Process (new or existing id), FlushAll or Close at a time T after all expiries; oracle = if that second call returns successfully, every group whose expiry lies before T has by then been emitted (its Send through the Broker has returned), and after the Sender is released and everything returned each group was sent exactly once; non-trivial = the second call was made while a Send was blocked; distinct = configuration"

type cEv struct {
	id    string
	flush bool
	tok   int
}

func (e *cEv) GetID() string    { return e.id }
func (e *cEv) FlushEvent() bool { return e.flush }
func (e *cEv) ComposeFrom(events []*eventlogger.Event) (eventlogger.EventType, interface{}, error) {
	c := &cComp{}
	for _, x := range events {
		if p, ok := x.Payload.(*cEv); ok {
			c.ids = append(c.ids, p.id)
			c.toks = append(c.toks, p.tok)
		}
	}
	return "composite", c, nil
}

type cComp struct {
	ids  []string
	toks []int
}

type slowSender struct {
	mu       sync.Mutex
	started  [][]int // tokens of every composite whose Send has begun
	finished [][]int // tokens of every composite whose Send has returned
	entered  chan struct{}
	release  chan struct{}
	block    atomic.Bool
}

func (s *slowSender) Send(_ context.Context, _ eventlogger.EventType, payload interface{}) (eventlogger.Status, error) {
	if c, ok := payload.(*cComp); ok {
		s.mu.Lock()
		s.started = append(s.started, c.toks)
		s.mu.Unlock()
	}
	if s.block.CompareAndSwap(true, false) { // the first Send is held, later ones pass
		select {
		case s.entered <- struct{}{}:
		default:
		}
		<-s.release
	}
	if c, ok := payload.(*cComp); ok {
		s.mu.Lock()
		s.finished = append(s.finished, c.toks)
		s.mu.Unlock()
	}
	return eventlogger.Status{}, nil
}

func (s *slowSender) finishedToks() map[int]int {
	s.mu.Lock()
	defer s.mu.Unlock()
	m := map[int]int{}
	for _, ts := range s.finished {
		for _, t := range ts {
			m[t]++
		}
	}
	return m
}

func (s *slowSender) startedToks() map[int]int {
	s.mu.Lock()
	defer s.mu.Unlock()
	m := map[int]int{}
	for _, ts := range s.started {
		for _, t := range ts {
			m[t]++
		}
	}
	return m
}

func TestC17SlowBroker(t *testing.T) {
	sec := stats.Sec("slow_broker", ruleSlow)
	rapid.Check(t, func(t *rapid.T) {
		ngroups := rapid.IntRange(2, 4).Draw(t, "expiredGroups")
		second := rapid.SampledFrom([]string{"process-new-id", "process-existing-id", "FlushAll", "Close"}).Draw(t, "secondCall")
		d := fmt.Sprintf("expiredGroups=%d secondCall=%s", ngroups, second)
		var now atomic.Int64
		now.Store(time.Date(2026, 1, 1, 0, 0, 0, 0, time.UTC).UnixNano())
		snd := &slowSender{entered: make(chan struct{}, 1), release: make(chan struct{})}
		f := &gated.Filter{Broker: snd, Expiration: time.Second, NowFunc: func() time.Time { return time.Unix(0, now.Load()) }}
		ctx := context.Background()
		ev := func(id string, tok int) *eventlogger.Event {
			return &eventlogger.Event{Type: "t", Formatted: map[string][]byte{}, Payload: &cEv{id: id, tok: tok}}
		}
		tok := 0
		var expired []int
		for i := 0; i < ngroups; i++ {
			tok++
			if _, err := f.Process(ctx, ev(fmt.Sprintf("g%d", i), tok)); err != nil {
				t.Fatalf("harness: %v", err)
			}
			expired = append(expired, tok)
			now.Add(int64(time.Millisecond))
		}
		now.Add(int64(2 * time.Second)) // every group is expired now
		snd.block.Store(true)
		firstDone := make(chan struct{})
		tok++
		firstTok := tok
		go func() {
			defer close(firstDone)
			_, _ = f.Process(ctx, ev("first-caller", firstTok))
		}()
		select {
		case <-snd.entered:
		case <-firstDone:
			t.Fatalf("VIOLATION C17: Process returned at a time when %d groups were expired without handing any of them to the Broker\ncase: %s", ngroups, d)
		case <-time.After(10 * time.Second):
			fmt.Printf("\nINCONCLUSIVE-MARK the expiry sweep never reached the Sender\n")
			t.Skip("inconclusive")
		}
		// a Send is blocked inside the Sender now
		secondDone := make(chan error, 1)
		tok++
		secondTok := tok
		go func() {
			var err error
			switch second {
			case "process-new-id":
				_, err = f.Process(ctx, ev("second-caller", secondTok))
			case "process-existing-id":
				_, err = f.Process(ctx, ev("g1", secondTok))
			case "FlushAll":
				err = f.FlushAll(ctx)
			case "Close":
				err = f.Close(ctx)
			}
			secondDone <- err
		}()
		returnedWhileBlocked := false
		select {
		case err := <-secondDone:
			returnedWhileBlocked = true
			if err == nil {
				st := snd.finishedToks()
				for _, x := range expired {
					if st[x] == 0 {
						close(snd.release)
						<-firstDone
						t.Fatalf("VIOLATION C17: %s returned successfully although the group of event %d, expired long before, has not been emitted yet: it is no longer gated, and its Send through the Broker (made by another call) is still in progress or has not begun\ncase: %s", second, x, d)
					}
				}
			}
		case <-time.After(150 * time.Millisecond):
		}
		snd.block.Store(false)
		close(snd.release)
		<-firstDone
		if !returnedWhileBlocked {
			select {
			case <-secondDone:
			case <-time.After(10 * time.Second):
				fmt.Printf("\nINCONCLUSIVE-MARK second call did not return after the Sender was released\n")
				t.Skip("inconclusive")
			}
		}
		if err := f.FlushAll(ctx); err != nil {
			t.Fatalf("VIOLATION C17: final FlushAll failed: %v\ncase: %s", err, d)
		}
		st := snd.startedToks()
		for _, x := range expired {
			if st[x] != 1 {
				t.Fatalf("VIOLATION C17: the expired group of event %d was sent %d times\ncase: %s", x, st[x], d)
			}
		}
		sec.Case(true, d, "secondCall="+second)
	})
}
