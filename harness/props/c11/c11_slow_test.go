package c11

import (
	"context"
	"fmt"
	"sort"
	"sync"
	"sync/atomic"
	"testing"
	"time"

	"github.com/hashicorp/eventlogger"
	"github.com/hashicorp/eventlogger/filters/gated"
	"pgregory.net/rapid"
	"verif/harness/internal/stats"
)

const ruleSlowStages = "rapid: 2-4 groups of 1-3 events gated; a first call (Process that starts an expiry sweep, Process with a flush event, FlushAll or Close) is held inside a slow stage (the payload's ComposeFrom or the Sender's Send, chosen per case) for a bounded time while one or two other goroutines call Process (same id, neighbouring group's id, new id; plain or flush event), FlushAll or Close; then the stage is released, everything joins and a final FlushAll runs; oracle = every event whose Process call returned (nil event, nil error) or was a successful flush event appears in exactly one ComposeFrom argument list, lists hold one id in acceptance order, and every composed list was delivered exactly once (returned down the pipeline or handed to the Sender); non-trivial = an overlapping call was started while the stage was held; distinct = configuration"

// sEv is a Gateable payload whose ComposeFrom can be held.
type sEv struct {
	id    string
	flush bool
	tok   int
	w     *slowWorld
}

type sComp struct{ toks []int }

type slowWorld struct {
	mu        sync.Mutex
	composes  [][]int
	composeID [][]string
	sent      [][]int
	holdComp  atomic.Bool
	holdSend  atomic.Bool
	entered   chan struct{}
	release   chan struct{}
}

func (w *slowWorld) hold(flag *atomic.Bool) {
	if flag.CompareAndSwap(true, false) { // only the first arrival is held
		select {
		case w.entered <- struct{}{}:
		default:
		}
		<-w.release
	}
}

func (e *sEv) GetID() string    { return e.id }
func (e *sEv) FlushEvent() bool { return e.flush }
func (e *sEv) ComposeFrom(events []*eventlogger.Event) (eventlogger.EventType, interface{}, error) {
	c := &sComp{}
	var ids []string
	for _, x := range events {
		if p, ok := x.Payload.(*sEv); ok {
			c.toks = append(c.toks, p.tok)
			ids = append(ids, p.id)
		}
	}
	e.w.mu.Lock()
	e.w.composes = append(e.w.composes, c.toks)
	e.w.composeID = append(e.w.composeID, ids)
	e.w.mu.Unlock()
	e.w.hold(&e.w.holdComp)
	return "composite", c, nil
}

type sSender struct{ w *slowWorld }

func (s *sSender) Send(_ context.Context, _ eventlogger.EventType, payload interface{}) (eventlogger.Status, error) {
	if c, ok := payload.(*sComp); ok {
		s.w.mu.Lock()
		s.w.sent = append(s.w.sent, c.toks)
		s.w.mu.Unlock()
	}
	s.w.hold(&s.w.holdSend)
	return eventlogger.Status{}, nil
}

func TestC11SlowStages(t *testing.T) {
	sec := stats.Sec("slow_stages", ruleSlowStages)
	firstKinds := []string{"expiry-sweep", "flush-event", "FlushAll", "Close"}
	otherKinds := []string{"process-same-id", "process-next-id", "process-new-id", "flush-same-id", "flush-next-id", "FlushAll", "Close", "process-after-expiry"}
	rapid.Check(t, func(t *rapid.T) {
		ngroups := rapid.IntRange(2, 4).Draw(t, "groups")
		per := rapid.IntRange(1, 3).Draw(t, "eventsPerGroup")
		first := rapid.SampledFrom(firstKinds).Draw(t, "firstCall")
		stage := rapid.SampledFrom([]string{"compose", "send"}).Draw(t, "heldStage")
		nother := rapid.IntRange(1, 2).Draw(t, "overlappingCalls")
		others := make([]string, nother)
		for i := range others {
			others[i] = rapid.SampledFrom(otherKinds).Draw(t, "other")
		}
		d := fmt.Sprintf("groups=%d per=%d first=%s held=%s others=%v", ngroups, per, first, stage, others)

		w := &slowWorld{entered: make(chan struct{}, 1), release: make(chan struct{})}
		var now atomic.Int64
		now.Store(time.Date(2026, 1, 1, 0, 0, 0, 0, time.UTC).UnixNano())
		f := &gated.Filter{Broker: &sSender{w: w}, Expiration: time.Second, NowFunc: func() time.Time { return time.Unix(0, now.Load()) }}
		ctx := context.Background()

		var amu sync.Mutex
		accepted := map[int]string{} // tok -> id
		var delivered [][]int        // composites that continued down the pipeline
		tok := 0
		nextTok := func() int { amu.Lock(); defer amu.Unlock(); tok++; return tok }
		call := func(id string, flush bool) error {
			k := nextTok()
			out, err := f.Process(ctx, &eventlogger.Event{Type: "t", Formatted: map[string][]byte{}, Payload: &sEv{id: id, flush: flush, tok: k, w: w}})
			amu.Lock()
			defer amu.Unlock()
			if err == nil && (out == nil || flush) {
				accepted[k] = id
			}
			if out != nil {
				if c, ok := out.Payload.(*sComp); ok {
					delivered = append(delivered, c.toks)
				}
			}
			return err
		}
		for i := 0; i < ngroups; i++ {
			for j := 0; j < per; j++ {
				if err := call(fmt.Sprintf("g%d", i), false); err != nil {
					t.Fatalf("harness: %v", err)
				}
			}
			now.Add(int64(time.Millisecond))
		}
		if first == "expiry-sweep" {
			now.Add(int64(2 * time.Second))
		}
		if stage == "compose" {
			w.holdComp.Store(true)
		} else {
			w.holdSend.Store(true)
		}
		var wg sync.WaitGroup
		firstDone := make(chan struct{})
		wg.Add(1)
		go func() {
			defer wg.Done()
			defer close(firstDone)
			switch first {
			case "expiry-sweep":
				_ = call("first-caller", false)
			case "flush-event":
				_ = call("g0", true)
			case "FlushAll":
				_ = f.FlushAll(ctx)
			case "Close":
				_ = f.Close(ctx)
			}
		}()
		held := false
		select {
		case <-w.entered:
			held = true
		case <-firstDone: // e.g. a flush event never reaches the Sender: nothing to hold
		case <-time.After(10 * time.Second):
			fmt.Printf("\nINCONCLUSIVE-MARK first call neither returned nor reached the held stage\n")
			close(w.release)
			t.Skip("inconclusive")
		}
		othersDone := make(chan struct{})
		var owg sync.WaitGroup
		for _, o := range others {
			owg.Add(1)
			go func(o string) {
				defer owg.Done()
				switch o {
				case "process-same-id":
					_ = call("g0", false)
				case "process-next-id":
					_ = call("g1", false)
				case "process-new-id":
					_ = call("fresh", false)
				case "flush-same-id":
					_ = call("g0", true)
				case "flush-next-id":
					_ = call("g1", true)
				case "FlushAll":
					_ = f.FlushAll(ctx)
				case "Close":
					_ = f.Close(ctx)
				case "process-after-expiry":
					now.Add(int64(3 * time.Second))
					_ = call("late", false)
				}
			}(o)
		}
		go func() { owg.Wait(); close(othersDone) }()
		select {
		case <-othersDone:
		case <-time.After(60 * time.Millisecond):
		}
		w.holdComp.Store(false)
		w.holdSend.Store(false)
		close(w.release)
		joined := make(chan struct{})
		go func() { wg.Wait(); owg.Wait(); close(joined) }()
		select {
		case <-joined:
		case <-time.After(20 * time.Second):
			fmt.Printf("\nINCONCLUSIVE-MARK calls did not return after the stage was released\n")
			t.Skip("inconclusive")
		}
		if err := f.FlushAll(ctx); err != nil {
			t.Fatalf("VIOLATION C11: final FlushAll failed: %v\ncase: %s", err, d)
		}
		w.mu.Lock()
		composes, ids, sent := w.composes, w.composeID, w.sent
		w.mu.Unlock()
		count := map[int]int{}
		for k, list := range composes {
			for j, x := range list {
				count[x]++
				if ids[k][j] != ids[k][0] {
					t.Fatalf("VIOLATION C11: ComposeFrom got events of different ids %v\ncase: %s", ids[k], d)
				}
			}
			// events of one id were accepted by calls that may overlap; only the pre-loaded
			// ones (sequential, tokens 1..ngroups*per) have a defined mutual order
			var pre []int
			for _, x := range list {
				if x <= ngroups*per {
					pre = append(pre, x)
				}
			}
			if !sort.IntsAreSorted(pre) {
				t.Fatalf("VIOLATION C11: events reordered inside one group: %v\ncase: %s", list, d)
			}
		}
		for k, id := range accepted {
			if count[k] != 1 {
				t.Fatalf("VIOLATION C11: accepted event %d (id %s) was handed to composition %d times, want exactly once; compositions %v\ncase: %s", k, id, count[k], composes, d)
			}
		}
		dcount := map[int]int{}
		for _, list := range append(append([][]int{}, sent...), delivered...) {
			for _, x := range list {
				dcount[x]++
			}
		}
		for k, id := range accepted {
			if dcount[k] != 1 {
				t.Fatalf("VIOLATION C11: accepted event %d (id %s) left the filter in %d composites (Sender %v, pipeline %v), want exactly one\ncase: %s", k, id, dcount[k], sent, delivered, d)
			}
		}
		sec.Case(held, d, "first="+first+" held="+stage)
	})
}
