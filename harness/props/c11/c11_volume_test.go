package c11

import (
	"context"
	"fmt"
	"testing"
	"time"

	"github.com/hashicorp/eventlogger"
	"github.com/hashicorp/eventlogger/filters/gated"
	"verif/harness/internal/stats"
)

const ruleVolume = "enumeration over the number of events of one id N in {1, 63, 64, 65, 1000, 4095, 4096, 4097, 10000, 70000} x Broker set / nil x end of the group (flush event / expiry / FlushAll), with a second id interleaved: N events are accepted without any time passing, then the group ends; oracle = nothing is composed or sent before the group ends, and the one composition then holds exactly the N events (plus the flush event) in arrival order; the interleaved id's group holds exactly its own; non-trivial = N >= 4096; distinct = configuration"

// TestC11ManyEvents: "together with exactly the other events of the same ID received since that ID's group was opened", at volume.
func TestC11ManyEvents(t *testing.T) {
	sec := stats.Sec("many_events", ruleVolume)
	for _, n := range []int{1, 63, 64, 65, 1000, 4095, 4096, 4097, 10000, 70000} {
		for _, broker := range []bool{true, false} {
			for _, end := range []string{"flush-event", "expiry", "FlushAll"} {
				if !broker && end != "flush-event" {
					continue // without a Broker the group is dropped: nothing to compare
				}
				d := fmt.Sprintf("events=%d broker=%v end=%s", n, broker, end)
				w := &slowWorld{entered: make(chan struct{}, 1), release: make(chan struct{})}
				now := time.Date(2026, 1, 1, 0, 0, 0, 0, time.UTC)
				f := &gated.Filter{Expiration: time.Hour, NowFunc: func() time.Time { return now }}
				if broker {
					f.Broker = &sSender{w: w}
				}
				ctx := context.Background()
				fail := func(msg string) {
					stats.Violation("TestC11ManyEvents", map[string]interface{}{"case": d, "message": msg})
					t.Fatalf("VIOLATION C11: %s\ncase: %s", msg, d)
				}
				var want, wantOther []int
				for i := 1; i <= n; i++ {
					out, err := f.Process(ctx, &eventlogger.Event{Type: "t", Formatted: map[string][]byte{}, Payload: &sEv{id: "big", tok: i, w: w}})
					if err != nil || out != nil {
						fail(fmt.Sprintf("event %d of %d: event=%v err=%v", i, n, out != nil, err))
					}
					want = append(want, i)
					if i%1000 == 1 {
						k := 1000000 + i
						if out, err := f.Process(ctx, &eventlogger.Event{Type: "t", Formatted: map[string][]byte{}, Payload: &sEv{id: "other", tok: k, w: w}}); err != nil || out != nil {
							fail(fmt.Sprintf("event of the second id: event=%v err=%v", out != nil, err))
						}
						wantOther = append(wantOther, k)
					}
					if len(w.composes) != 0 || len(w.sent) != 0 {
						fail(fmt.Sprintf("after %d events of one id, with no flush event and no time passed, %d composition(s) were made and %d composite(s) sent: %v", i, len(w.composes), len(w.sent), firstFew(w.composes)))
					}
				}
				var got [][]int
				switch end {
				case "flush-event":
					out, err := f.Process(ctx, &eventlogger.Event{Type: "t", Formatted: map[string][]byte{}, Payload: &sEv{id: "big", flush: true, tok: n + 1, w: w}})
					if err != nil || out == nil {
						fail(fmt.Sprintf("flush event: event=%v err=%v", out != nil, err))
					}
					want = append(want, n+1)
					c, _ := out.Payload.(*sComp)
					if c == nil {
						fail(fmt.Sprintf("flush event returned a %T", out.Payload))
					}
					got = [][]int{c.toks}
				case "expiry":
					now = now.Add(2 * time.Hour)
					if out, err := f.Process(ctx, &eventlogger.Event{Type: "t", Formatted: map[string][]byte{}, Payload: &sEv{id: "late", tok: 2000000, w: w}}); err != nil || out != nil {
						fail(fmt.Sprintf("event after expiry: event=%v err=%v", out != nil, err))
					}
					got = w.sent
				case "FlushAll":
					if err := f.FlushAll(ctx); err != nil {
						fail("FlushAll: " + err.Error())
					}
					got = w.sent
				}
				foundBig, foundOther := 0, 0
				for _, c := range got {
					switch {
					case len(c) > 0 && c[0] == want[0]:
						foundBig++
						if !equalInts(c, want) {
							fail(fmt.Sprintf("the composite of id big holds %d events (first %v ...), accepted were %d in order 1..%d", len(c), firstFew([][]int{c}), len(want), len(want)))
						}
					case len(c) > 0 && len(wantOther) > 0 && c[0] == wantOther[0]:
						foundOther++
						if !equalInts(c, wantOther) {
							fail(fmt.Sprintf("the composite of the second id holds %v, accepted were %v", c, wantOther))
						}
					}
				}
				if foundBig != 1 || (end != "flush-event" && foundOther != 1) {
					fail(fmt.Sprintf("%d composite(s) start with the first event of id big, %d with the first of the second id; want 1 and 1 (composites: %d)", foundBig, foundOther, len(got)))
				}
				sec.Case(n >= 4096, d, "end="+end)
			}
		}
	}
}

func equalInts(a, b []int) bool {
	if len(a) != len(b) {
		return false
	}
	for i := range a {
		if a[i] != b[i] {
			return false
		}
	}
	return true
}

func firstFew(cs [][]int) string {
	var out []string
	for i, c := range cs {
		if i == 3 {
			break
		}
		if len(c) > 4 {
			out = append(out, fmt.Sprintf("[%d %d ... %d] (%d)", c[0], c[1], c[len(c)-1], len(c)))
		} else {
			out = append(out, fmt.Sprint(c))
		}
	}
	return fmt.Sprint(out)
}
