// C11 — gated.Filter neither loses, duplicates nor reorders gated events.
package c11

import (
	"encoding/json"
	"fmt"
	"testing"

	"pgregory.net/rapid"
	g "verif/harness/internal/gatedh"
	"verif/harness/internal/stats"
)

func TestMain(m *testing.M) { stats.Main(m, "C11") }

const ruleRandom = "rapid histories over {ev/flush(a|b|c|\"\"), plain, ticks, FlushAll, Close, broker on/off, armed compose error / Gateable composite / send error}; oracle = every ComposeFrom argument list is a whole open group in arrival order, exactly once, final probe flush finds no lost event; non-trivial = >=2 ids open simultaneously and >=1 flush or expiry composition; distinct = distinct history descriptor"
const ruleEnum = "all sequences of length 1..depth over {ev(a),ev(b),flush(a),flush(b),plain,tick>E,FlushAll,Close} x broker set/unset (exhaustive); same oracle; non-trivial as above"

func nontrivial(s g.C11Summary) bool { return s.MaxOpen >= 2 && (s.Flushes+s.Expiries) >= 1 }

func classes(s g.C11Summary) []string {
	c := []string{fmt.Sprintf("max_open_ids=%d", s.MaxOpen)}
	if s.Flushes > 0 {
		c = append(c, "flush_composition")
	}
	if s.Expiries > 0 {
		c = append(c, "expiry_composition")
	}
	if s.FlushAllComps > 0 {
		c = append(c, "flushall_composition")
	}
	if s.Discards > 0 {
		c = append(c, "discard_without_broker_possible")
	}
	if s.Errors > 0 {
		c = append(c, "injected_failure_hit")
	}
	return c
}

func TestC11Random(t *testing.T) {
	sec := stats.Sec("random", ruleRandom)
	maxOps := stats.EnvInt("C11_MAXOPS", 40)
	rapid.Check(t, func(t *rapid.T) {
		cfg, ops := g.GenHistory(t, maxOps, false)
		obs := g.Run(cfg, ops)
		msg, sum := g.CheckC11(obs)
		if msg != "" {
			t.Fatalf("VIOLATION C11: %s\nhistory: %s", msg, g.Describe(cfg, ops))
		}
		sec.Case(nontrivial(sum), g.Describe(cfg, ops), classes(sum)...)
	})
}

var alphabet = []g.Op{
	{K: g.OpEv, ID: "a"}, {K: g.OpEv, ID: "b"},
	{K: g.OpEv, ID: "a", Flush: true}, {K: g.OpEv, ID: "b", Flush: true},
	{K: g.OpNonGate}, {K: g.OpTick, Tick: g.TickOver},
	{K: g.OpFlushAll}, {K: g.OpClose},
}

func TestC11Exhaustive(t *testing.T) {
	if rp := stats.ReplayFile("TestC11Exhaustive"); rp != nil {
		replay(t, rp)
		return
	}
	sec := stats.Sec("exhaustive", ruleEnum)
	depth := stats.EnvInt("C11_DEPTH", 5)
	sec.Set("depth", depth)
	sec.Set("alphabet", len(alphabet))
	shard, n := stats.Shard()
	for _, broker := range []bool{true, false} {
		cfg := g.Config{BrokerInit: broker}
		ok := g.Enumerate(alphabet, depth, shard, n, func(ops []g.Op) bool {
			obs := g.Run(cfg, ops)
			msg, sum := g.CheckC11(obs)
			if msg != "" {
				cp := append([]g.Op(nil), ops...)
				b, _ := json.Marshal(cp)
				stats.Violation("TestC11Exhaustive", map[string]interface{}{"cfg": cfg, "ops": json.RawMessage(b), "history": g.Describe(cfg, cp), "message": msg})
				t.Errorf("VIOLATION C11: %s\nhistory: %s", msg, g.Describe(cfg, cp))
				return false
			}
			sec.CaseEnum(nontrivial(sum), func() string { return g.Describe(cfg, ops) }, classes(sum)...)
			return true
		})
		if !ok {
			sec.NotExhaustive()
			return
		}
	}
}

func replay(t *testing.T, rp map[string]interface{}) {
	b, _ := json.Marshal(rp["ops"])
	var ops []g.Op
	if err := json.Unmarshal(b, &ops); err != nil {
		t.Fatalf("bad replay file: %v", err)
	}
	b, _ = json.Marshal(rp["cfg"])
	var cfg g.Config
	_ = json.Unmarshal(b, &cfg)
	obs := g.Run(cfg, ops)
	if msg, _ := g.CheckC11(obs); msg != "" {
		t.Fatalf("VIOLATION C11: %s\nhistory: %s", msg, g.Describe(cfg, ops))
	}
}
