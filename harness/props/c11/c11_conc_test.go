package c11

import (
	"context"
	"fmt"
	"sync"
	"sync/atomic"
	"testing"
	"time"

	"github.com/hashicorp/eventlogger/filters/gated"
	"pgregory.net/rapid"
	g "verif/harness/internal/gatedh"
	"verif/harness/internal/stats"
)

const ruleConc = "rapid: 2-6 goroutines sending gateable events (disjoint and overlapping ids, occasional flush events) into one gated.Filter while another goroutine calls FlushAll in a loop, Broker set or nil; built with -race; oracle = no panic, no race, no event in two ComposeFrom argument lists, every list has one id and preserves each sender's order, and (Broker set) after a final FlushAll every accepted event was composed exactly once; non-trivial = >=2 senders shared an id and FlushAll ran concurrently; distinct = case descriptor"

func TestC11Concurrent(t *testing.T) {
	sec := stats.Sec("concurrent", ruleConc)
	rapid.Check(t, func(t *rapid.T) {
		senders := rapid.IntRange(2, 6).Draw(t, "senders")
		per := rapid.IntRange(5, 60).Draw(t, "eventsPerSender")
		broker := rapid.Bool().Draw(t, "brokerSet")
		sharedIDs := rapid.Bool().Draw(t, "sharedIds")
		flusher := rapid.Bool().Draw(t, "concurrentFlushAll")
		flushEvery := rapid.SampledFrom([]int{0, 7, 13}).Draw(t, "flushEventEvery")
		c := g.NewConc()
		var now atomic.Int64
		now.Store(time.Date(2026, 1, 1, 0, 0, 0, 0, time.UTC).UnixNano())
		f := &gated.Filter{Expiration: time.Second, NowFunc: func() time.Time { return time.Unix(0, now.Load()) }}
		if broker {
			f.Broker = c.Sender()
		}
		var wg sync.WaitGroup
		var accepted sync.Map // tok -> sender index
		stop := make(chan struct{})
		flushDone := make(chan struct{})
		go func() {
			defer close(flushDone)
			if !flusher {
				return
			}
			for {
				select {
				case <-stop:
					return
				default:
				}
				_ = f.FlushAll(context.Background())
				now.Add(int64(300 * time.Millisecond))
			}
		}()
		for s := 0; s < senders; s++ {
			wg.Add(1)
			go func(s int) {
				defer wg.Done()
				for i := 0; i < per; i++ {
					id := fmt.Sprintf("id%d", s)
					if sharedIDs {
						id = fmt.Sprintf("id%d", (s+i)%2)
					}
					tok := s*10000 + i + 1
					fl := flushEvery > 0 && i%flushEvery == flushEvery-1
					out, err := f.Process(context.Background(), c.Event(id, fl, tok))
					if err == nil && (out == nil || fl) {
						accepted.Store(tok, s)
					}
				}
			}(s)
		}
		wg.Wait()
		close(stop)
		<-flushDone
		if broker {
			if err := f.FlushAll(context.Background()); err != nil {
				t.Fatalf("VIOLATION C11: final FlushAll failed: %v", err)
			}
		}
		seen := map[int]bool{}
		for _, call := range c.Composes() {
			last := map[int]int{}
			for k, tok := range call.Toks {
				if call.IDs[k] != call.IDs[0] {
					t.Fatalf("VIOLATION C11: ComposeFrom got events of different ids %v", call.IDs)
				}
				if seen[tok] {
					t.Fatalf("VIOLATION C11: event %d was handed to composition twice", tok)
				}
				seen[tok] = true
				s := tok / 10000
				if prev, ok := last[s]; ok && prev > tok {
					t.Fatalf("VIOLATION C11: events of sender %d reordered inside one group: %v", s, call.Toks)
				}
				last[s] = tok
			}
		}
		lost := 0
		accepted.Range(func(k, _ interface{}) bool {
			if !seen[k.(int)] {
				lost++
			}
			return true
		})
		if broker && lost > 0 {
			t.Fatalf("VIOLATION C11: %d accepted event(s) were never handed to composition although a Broker was configured throughout", lost)
		}
		sec.Case(sharedIDs && flusher, fmt.Sprintf("senders=%d events=%d broker=%v sharedIds=%v flushAll=%v flushEvery=%d", senders, per, broker, sharedIDs, flusher, flushEvery), fmt.Sprintf("broker=%v", broker))
	})
}
