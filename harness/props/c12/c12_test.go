// C12 — Broker calls terminate even when nodes call back into the Broker.
package c12

import (
	"context"
	"fmt"
	"strings"
	"sync"
	"sync/atomic"
	"testing"
	"time"

	"github.com/hashicorp/eventlogger"
	"github.com/hashicorp/eventlogger/filters/gated"
	"pgregory.net/rapid"
	"verif/harness/internal/leak"
	"verif/harness/internal/nodes"
	"verif/harness/internal/stats"
)

func TestMain(m *testing.M) {
	_ = time.Local.String()
	stats.Main(m, "C12")
}

const rule = "rapid: a broker with (a) a pipeline whose harness nodes call Send - or a writing call (RegisterNode, threshold setters) - on the same broker from Process / Close / Reopen (target type with 0-2 pipelines), (b) a real gated.Filter wired to the same broker with 0-3 pending groups (some expired), (c) 0-2 background goroutines issuing write-locking calls in a loop, (d) a pipeline whose first node is a wrapper without inner node (NodeUnwrapper returning nil, not a Closer); then a history of broker calls (Send, Reopen, RegisterNode, RegisterPipeline, RemovePipeline, RemovePipelineAndNodes, RemoveNode, thresholds, IsAnyPipelineRegistered, clock advance), each under a watchdog; oracle = every call returns within the bound, a miss is a violation only if a goroutine dump shows a library goroutine blocked on a lock; non-trivial = the history executed a re-entrant Send from Close or Reopen, or removed a gated filter with >=1 pending group; distinct = case descriptor"

var bound = 10 * time.Second

type world struct {
	b        *eventlogger.Broker
	w        *nodes.World
	now      atomic.Int64 // unix nanos of the gated clock
	gf       *gated.Filter
	reentry  atomic.Int64 // re-entrant Sends executed from Close/Reopen
	reProc   atomic.Int64
	sRF      *nodes.N // the sink of a pipeline of its own whose Reopen can be made to fail
	compSeen atomic.Int64
	pending  map[string]bool
}

type compositeCounter struct {
	*nodes.N
	wd *world
}

func (c *compositeCounter) Process(ctx context.Context, e *eventlogger.Event) (*eventlogger.Event, error) {
	if _, ok := e.Payload.(gated.EventPayload); ok {
		c.wd.compSeen.Add(1)
	}
	return c.N.Process(ctx, e)
}

// emptyWrapper is a decorator whose optional inner node is not set: it implements NodeUnwrapper, is not a
// Closer, and Unwrap returns nil.
type emptyWrapper struct{ *nodes.N }

func (emptyWrapper) Unwrap() eventlogger.Node { return nil }

// closeHider hides the embedded node's Close method (the wrapper itself is not a Closer).
type closeHider struct{ inner *nodes.N }

func (c closeHider) Process(ctx context.Context, e *eventlogger.Event) (*eventlogger.Event, error) {
	return c.inner.Process(ctx, e)
}
func (c closeHider) Reopen() error              { return c.inner.Reopen() }
func (c closeHider) Type() eventlogger.NodeType { return c.inner.Type() }
func (c closeHider) Unwrap() eventlogger.Node   { return nil }

type cfg struct {
	ReWriter                  bool // the re-entrant call is a writing Broker call (RegisterNode / SetSuccessThreshold) instead of Send
	ReProc, ReClose, ReReopen bool
	CloseErr                  bool // the nodes of pipeline pa fail their Close (after doing what ReClose asks for)
	TargetPipes               int
	SecondG                   bool
	Writers                   int
	Ops                       []string
}

func (c cfg) String() string {
	return fmt.Sprintf("reentry{writer=%v process=%v close=%v reopen=%v closeFails=%v} targetPipelines=%d secondGPipeline=%v writers=%d ops=[%s]", c.ReWriter, c.ReProc, c.ReClose, c.ReReopen, c.CloseErr, c.TargetPipes, c.SecondG, c.Writers, strings.Join(c.Ops, "; "))
}

func build(c cfg) *world {
	b, _ := eventlogger.NewBroker()
	wd := &world{b: b, w: &nodes.World{}, pending: map[string]bool{}}
	wd.now.Store(time.Date(2026, 1, 1, 0, 0, 0, 0, time.UTC).UnixNano())
	ctx := context.Background()
	mk := func(id string, t eventlogger.NodeType) *nodes.N {
		return &nodes.N{W: wd.w, Name: id, ID: id, T: t}
	}
	reenter := func(counter *atomic.Int64, settle bool) func(n *nodes.N) {
		return func(n *nodes.N) {
			if settle {
				time.Sleep(200 * time.Microsecond) // let a background writer queue up on the lock
			}
			counter.Add(1)
			if c.ReWriter {
				_ = b.SetSuccessThreshold("B", 0)
				_ = b.RegisterNode("reentrant-extra", &nodes.N{W: wd.w, Name: "rx", ID: "rx", T: eventlogger.NodeTypeFilter})
				_ = b.IsAnyPipelineRegistered("B")
				return
			}
			_, _ = b.Send(ctx, "B", &nodes.Lin{Path: "re"})
		}
	}
	x := mk("x", eventlogger.NodeTypeFilter)
	mA := mk("mA", eventlogger.NodeTypeFormatter)
	sA := mk("sA", eventlogger.NodeTypeSink)
	if c.ReClose {
		x.OnClose = reenter(&wd.reentry, true)
		sA.OnClose = reenter(&wd.reentry, true)
	}
	if c.CloseErr {
		x.CloseErr = fmt.Errorf("close of x failed")
		mA.CloseErr = fmt.Errorf("close of mA failed")
		sA.CloseErr = fmt.Errorf("close of sA failed")
	}
	if c.ReReopen {
		x.OnReopen = reenter(&wd.reentry, true)
		mA.OnReopen = reenter(&wd.reentry, true)
	}
	_ = b.RegisterNode("x", x)
	_ = b.RegisterNode("mA", mA)
	_ = b.RegisterNode("sA", sA)
	wd.sRF = mk("sRF", eventlogger.NodeTypeSink)
	_ = b.RegisterNode("mRF", mk("mRF", eventlogger.NodeTypeFormatter))
	_ = b.RegisterNode("sRF", wd.sRF)
	_ = b.RegisterPipeline(eventlogger.Pipeline{PipelineID: "prf", EventType: "RF", NodeIDs: []eventlogger.NodeID{"mRF", "sRF"}})
	_ = b.RegisterPipeline(eventlogger.Pipeline{PipelineID: "pa", EventType: "A", NodeIDs: []eventlogger.NodeID{"x", "mA", "sA"}})
	for i := 0; i < c.TargetPipes; i++ {
		m, s := fmt.Sprintf("mB%d", i), fmt.Sprintf("sB%d", i)
		_ = b.RegisterNode(eventlogger.NodeID(m), mk(m, eventlogger.NodeTypeFormatter))
		_ = b.RegisterNode(eventlogger.NodeID(s), mk(s, eventlogger.NodeTypeSink))
		_ = b.RegisterPipeline(eventlogger.Pipeline{PipelineID: eventlogger.PipelineID(fmt.Sprintf("pb%d", i)), EventType: "B", NodeIDs: []eventlogger.NodeID{eventlogger.NodeID(m), eventlogger.NodeID(s)}})
	}
	_ = b.RegisterNode("ew", closeHider{mk("ew", eventlogger.NodeTypeFilter)})
	_ = b.RegisterNode("mW", mk("mW", eventlogger.NodeTypeFormatter))
	_ = b.RegisterNode("sW", mk("sW", eventlogger.NodeTypeSink))
	_ = b.RegisterPipeline(eventlogger.Pipeline{PipelineID: "pw", EventType: "W2", NodeIDs: []eventlogger.NodeID{"ew", "mW", "sW"}})
	wd.gf = &gated.Filter{Broker: b, Expiration: time.Second, NowFunc: func() time.Time { return time.Unix(0, wd.now.Load()) }}
	_ = b.RegisterNode("gf", wd.gf)
	_ = b.RegisterNode("mG", mk("mG", eventlogger.NodeTypeFormatter))
	_ = b.RegisterNode("sG", &compositeCounter{N: mk("sG", eventlogger.NodeTypeSink), wd: wd})
	_ = b.RegisterPipeline(eventlogger.Pipeline{PipelineID: "pg", EventType: "G", NodeIDs: []eventlogger.NodeID{"gf", "mG", "sG"}})
	if c.SecondG {
		_ = b.RegisterNode("mG2", mk("mG2", eventlogger.NodeTypeFormatter))
		_ = b.RegisterNode("sG2", &compositeCounter{N: mk("sG2", eventlogger.NodeTypeSink), wd: wd})
		_ = b.RegisterPipeline(eventlogger.Pipeline{PipelineID: "pg2", EventType: "G", NodeIDs: []eventlogger.NodeID{"mG2", "sG2"}})
	}
	if c.ReProc {
		// Process re-entry is scripted through the payload's Enter callback, see opSendA
	}
	return wd
}

// exec runs one op under the watchdog; returns false if it did not return in time.
func exec(f func()) bool {
	done := make(chan struct{})
	go func() {
		defer close(done)
		f()
	}()
	select {
	case <-done:
		return true
	case <-time.After(bound):
		return false
	}
}

var opNames = []string{"rpanW", "rmpipeW+rmnodeEW", "sendG", "sendG", "sendG", "flushG", "tick", "tick", "sendA", "sendA", "reopen", "reopen", "rpanG", "rpanA", "rmpipeG+rmnode", "rmpipeA+rmnode", "regnode", "regpipeA", "thr", "isany", "rmpipeB", "sendExpired", "stoptime", "rmnodePadded", "rmnodePadded", "rmpipePadded", "rmpipeG", "replaceGF", "replaceGF", "regpipeG", "reopenFailsOnce"}

func TestC12Terminates(t *testing.T) {
	sec := stats.Sec("terminates", rule)
	if v := stats.EnvInt("C12_BOUND_S", 0); v > 0 {
		bound = time.Duration(v) * time.Second
	}
	rapid.Check(t, func(t *rapid.T) {
		c := cfg{
			ReWriter:    rapid.IntRange(0, 2).Draw(t, "reWriter") == 0,
			ReProc:      rapid.Bool().Draw(t, "reProc"),
			ReClose:     rapid.Bool().Draw(t, "reClose"),
			ReReopen:    rapid.Bool().Draw(t, "reReopen"),
			CloseErr:    rapid.IntRange(0, 2).Draw(t, "closeErr") == 0,
			TargetPipes: rapid.IntRange(0, 2).Draw(t, "targetPipes"),
			SecondG:     rapid.Bool().Draw(t, "secondG"),
			Writers:     rapid.IntRange(0, 2).Draw(t, "writers"),
			Ops:         rapid.SliceOfN(rapid.SampledFrom(opNames), 2, 10).Draw(t, "ops"),
		}
		wd := build(c)
		b := wd.b
		ctx := context.Background()
		var stop atomic.Bool
		var wg sync.WaitGroup
		for i := 0; i < c.Writers; i++ {
			wg.Add(1)
			go func(i int) {
				defer wg.Done()
				for k := 0; !stop.Load(); k++ {
					if i == 0 {
						_ = b.SetSuccessThreshold("W", k%3)
					} else {
						_ = b.RegisterNode("spare", &nodes.N{W: wd.w, Name: "spare", ID: "spare", T: eventlogger.NodeTypeFilter})
					}
					time.Sleep(20 * time.Microsecond)
				}
			}(i)
		}
		defer stop.Store(true)
		gid := 0
		pendingRemoved := false
		gfRegistered := true
		for i, op := range c.Ops {
			var f func()
			switch op {
			case "sendG", "flushG":
				gid++
				id := fmt.Sprintf("g%d", gid%3)
				fl := op == "flushG"
				f = func() {
					_, _ = b.Send(ctx, "G", &gated.Payload{ID: id, Flush: fl, Header: map[string]interface{}{"k": i}, Detail: map[string]interface{}{"n": gid}})
				}
				if gfRegistered {
					if fl {
						delete(wd.pending, id)
					} else {
						wd.pending[id] = true
					}
				}
			case "tick":
				f = func() { wd.now.Add(int64(1500 * time.Millisecond)) }
			case "sendA":
				lin := &nodes.Lin{Path: fmt.Sprintf("A%d", i)}
				if c.ReProc {
					lin.Enter = func(n *nodes.N) {
						if n.ID == "x" || n.ID == "sA" {
							wd.reProc.Add(1)
							if c.ReWriter {
								_ = b.SetSuccessThresholdSinks("B", 0)
								_ = b.RegisterNode("reentrant-extra", &nodes.N{W: wd.w, Name: "rx", ID: "rx", T: eventlogger.NodeTypeFilter})
							} else {
								_, _ = b.Send(ctx, "B", &nodes.Lin{Path: "re"})
							}
						}
					}
				}
				f = func() { _, _ = b.Send(ctx, "A", lin) }
			case "reopen":
				f = func() { _ = b.Reopen(ctx) }
			case "rpanG":
				if gfRegistered && len(wd.pending) > 0 {
					pendingRemoved = true
				}
				f = func() { _, _ = b.RemovePipelineAndNodes(ctx, "G", "pg") }
				gfRegistered = false
				wd.pending = map[string]bool{}
			case "rpanA":
				f = func() { _, _ = b.RemovePipelineAndNodes(ctx, "A", "pa") }
			case "rmpipeG+rmnode":
				if gfRegistered && len(wd.pending) > 0 {
					pendingRemoved = true
				}
				f = func() { _ = b.RemovePipeline("G", "pg"); _ = b.RemoveNode(ctx, "gf") }
				gfRegistered = false
				wd.pending = map[string]bool{}
			case "rmpipeA+rmnode":
				f = func() { _ = b.RemovePipeline("A", "pa"); _ = b.RemoveNode(ctx, "x"); _ = b.RemoveNode(ctx, "sA") }
			case "regnode":
				f = func() {
					_ = b.RegisterNode("extra", &nodes.N{W: wd.w, Name: "extra", ID: "extra", T: eventlogger.NodeTypeFilter})
				}
			case "regpipeA":
				f = func() {
					_ = b.RegisterPipeline(eventlogger.Pipeline{PipelineID: "pa", EventType: "A", NodeIDs: []eventlogger.NodeID{"x", "mA", "sA"}})
				}
			case "thr":
				f = func() { _ = b.SetSuccessThresholdSinks("A", i%2); _, _ = b.SuccessThreshold("A") }
			case "isany":
				f = func() { _ = b.IsAnyPipelineRegistered("A"); _, _ = b.SuccessThresholdSinks("G") }
			case "rpanW":
				f = func() { _, _ = b.RemovePipelineAndNodes(ctx, "W2", "pw") }
			case "rmpipeW+rmnodeEW":
				f = func() { _ = b.RemovePipeline("W2", "pw"); _ = b.RemoveNode(ctx, "ew") }
			case "rmpipeB":
				f = func() { _ = b.RemovePipeline("B", "pb0") }
			case "rmpipeG":
				// only the pipeline goes: the gated filter stays registered, unreferenced, possibly with gated groups
				f = func() { _ = b.RemovePipeline("G", "pg") }
				gfRegistered = false
			case "replaceGF":
				// the gated filter's id is registered again with a new filter while the pipeline still holds the old one
				// (which may have gated groups and whose Close sends through this very Broker)
				f = func() {
					_ = b.RegisterNode("gf", &gated.Filter{Broker: b, Expiration: time.Second, NowFunc: func() time.Time { return time.Unix(0, wd.now.Load()) }})
				}
			case "regpipeG":
				f = func() {
					_ = b.RegisterPipeline(eventlogger.Pipeline{PipelineID: "pg", EventType: "G", NodeIDs: []eventlogger.NodeID{"gf", "mG", "sG"}})
				}
				gfRegistered = true
			case "reopenFailsOnce":
				// one node's Reopen fails for exactly one Broker.Reopen; later Reopens must still return
				f = func() {
					wd.sRF.ReopenErr = fmt.Errorf("reopen of sRF failed")
					_ = b.Reopen(ctx)
					wd.sRF.ReopenErr = nil
					_ = b.Reopen(ctx)
				}
			case "sendExpired":
				// contexts that are done in different ways before the call: deadline in the past, deadline now, tiny timeout, cancelled
				kind := i % 4
				f = func() {
					var sctx context.Context
					var cancel context.CancelFunc
					switch kind {
					case 0:
						sctx, cancel = context.WithDeadline(ctx, time.Now().Add(-time.Hour))
					case 1:
						sctx, cancel = context.WithDeadline(ctx, time.Now())
					case 2:
						sctx, cancel = context.WithTimeout(ctx, time.Nanosecond)
					default:
						sctx, cancel = context.WithCancel(ctx)
						cancel()
					}
					defer cancel()
					_, _ = b.Send(sctx, "A", &nodes.Lin{Path: "expired"})
					_, _ = b.Send(sctx, "G", &gated.Payload{ID: "gx", Header: map[string]interface{}{"k": 1}})
				}
			case "stoptime":
				at := []time.Time{{}, time.Date(2100, 1, 1, 0, 0, 0, 0, time.UTC), time.Unix(0, 0), time.Date(1999, 1, 1, 0, 0, 0, 0, time.UTC)}[i%4]
				f = func() { b.StopTimeAt(at) }
			case "rmnodePadded":
				// ids that are not registered as written (the registered ones are "gf", "x", "ew"): nothing is removed
				id := []eventlogger.NodeID{"gf ", " gf", "gf\n", "x ", "ew\t"}[i%5]
				f = func() { _ = b.RemoveNode(ctx, id) }
			case "rmpipePadded":
				f = func() {
					_ = b.RemovePipeline("G", "pg ")
					_, _ = b.RemovePipelineAndNodes(ctx, "G ", "pg")
					_, _ = b.RemovePipelineAndNodes(ctx, " ", " ")
				}
			}
			if !exec(f) {
				stop.Store(true)
				gs := leak.Dump()
				bl := leak.BlockedInLib(gs)
				if len(bl) == 0 {
					fmt.Printf("\nINCONCLUSIVE-MARK watchdog: %s did not return within %s but no library goroutine is blocked\n", op, bound)
					t.Skip("inconclusive")
				}
				var sb strings.Builder
				for _, g := range bl {
					sb.WriteString(g.Text + "\n\n")
				}
				t.Fatalf("VIOLATION C12: op %d (%s) did not return within %s\ncase: %s\nblocked library goroutines:\n%s", i, op, bound, c, sb.String())
			}
		}
		stop.Store(true)
		if !exec(wg.Wait) {
			t.Fatalf("VIOLATION C12: background writers are stuck after the history (broker permanently locked)\ncase: %s", c)
		}
		if !exec(func() {
			_ = b.RegisterNode("final-probe", &nodes.N{W: wd.w, Name: "final-probe", ID: "final-probe", T: eventlogger.NodeTypeFilter})
			_, _ = b.Send(ctx, "A", &nodes.Lin{Path: "final"})
		}) {
			gs := leak.BlockedInLib(leak.Dump())
			txt := ""
			if len(gs) > 0 {
				txt = gs[0].Text
			}
			t.Fatalf("VIOLATION C12: a writing call and a Send made after the history did not return within %s (broker permanently locked)\ncase: %s\n%s", bound, c, txt)
		}
		var cl []string
		if wd.reentry.Load() > 0 {
			cl = append(cl, "reentrant_send_from_close_or_reopen")
		}
		if wd.reProc.Load() > 0 {
			cl = append(cl, "reentrant_send_from_process")
		}
		if pendingRemoved {
			cl = append(cl, "gated_filter_removed_with_pending_groups")
		}
		if wd.compSeen.Load() > 0 {
			cl = append(cl, "composites_arrived")
		}
		if c.Writers > 0 {
			cl = append(cl, "background_writers")
		}
		sec.Case(wd.reentry.Load() > 0 || pendingRemoved, c.String(), cl...)
	})
}
