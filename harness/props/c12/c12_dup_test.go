package c12

import (
	"context"
	"fmt"
	"runtime"
	"strings"
	"sync"
	"sync/atomic"
	"testing"

	"github.com/hashicorp/eventlogger"
	"pgregory.net/rapid"
	"verif/harness/internal/leak"
	"verif/harness/internal/nodes"
	"verif/harness/internal/stats"
)

const ruleDup = "rapid: 2-4 goroutines released together through a spin barrier issue the SAME Broker call with the same arguments (the pipeline lists its filter 1, 300 or 2000 times, which stretches flattening and validation) (RemovePipelineAndNodes, RemovePipeline, RemoveNode, RegisterPipeline, RegisterNode, Send, Reopen, threshold setters) or a drawn mix of them, 5-30 barrier steps per case, the pipeline being re-created single-threaded before every step, each step under the watchdog and a final writing probe call; oracle = every call returns within the bound, a miss is a violation only if the goroutine dump shows a library goroutine blocked on a lock; non-trivial = >=1 step of simultaneous identical removals or registrations; distinct = case descriptor"

var dupOps = []string{"rpan", "rpan", "rmpipe", "rmnode", "regpipe", "regpipe-deny", "regnode", "regnode-deny", "send", "reopen", "thr", "mixed", "mixed"}
var mixOps = []string{"rpan", "rmpipe", "rmnode", "regpipe", "regpipe-deny", "regnode", "regnode-deny", "send", "reopen", "thr", "isany"}

// TestC12ConcurrentDuplicates: simultaneous identical calls must not wedge the Broker.
func TestC12ConcurrentDuplicates(t *testing.T) {
	sec := stats.Sec("concurrent_duplicates", ruleDup)
	rapid.Check(t, func(t *rapid.T) {
		g := rapid.IntRange(2, 4).Draw(t, "goroutines")
		steps := rapid.SliceOfN(rapid.SampledFrom(dupOps), 5, 30).Draw(t, "steps")
		fresh := rapid.SliceOfN(rapid.Bool(), len(steps), len(steps)).Draw(t, "freshPipeline")
		long := rapid.SampledFrom([]int{1, 1, 1, 300, 2000}).Draw(t, "listedTimes") // the pipeline lists its filter this many times: flattening and validating take longer
		stepNo := 0
		mix := make([][]string, len(steps))
		for i, s := range steps {
			if s == "mixed" {
				mix[i] = rapid.SliceOfN(rapid.SampledFrom(mixOps), g, g).Draw(t, fmt.Sprintf("mix%d", i))
			}
		}
		b, _ := eventlogger.NewBroker()
		w := &nodes.World{}
		ctx := context.Background()
		mk := func(id string, nt eventlogger.NodeType) *nodes.N {
			if long > 1 {
				return &nodes.N{W: w, Name: id, ID: id, T: nt}
			}
			return &nodes.N{W: w, Name: id, ID: id, T: nt, OnType: func(*nodes.N) { runtime.Gosched() }} // Type() is a scheduling point inside validation
		}
		pipe := eventlogger.Pipeline{PipelineID: "p", EventType: "T"}
		for i := 0; i < long; i++ {
			pipe.NodeIDs = append(pipe.NodeIDs, "f")
		}
		pipe.NodeIDs = append(pipe.NodeIDs, "m", "s")
		ensure := func() {
			if fresh[stepNo] {
				_ = b.RemovePipeline("T", "p") // the next burst meets a pipeline id whose policy is the default again
			}
			_ = b.RegisterNode("f", mk("f", eventlogger.NodeTypeFilter))
			_ = b.RegisterNode("m", mk("m", eventlogger.NodeTypeFormatter))
			_ = b.RegisterNode("s", mk("s", eventlogger.NodeTypeSink))
			_ = b.RegisterPipeline(pipe)
		}
		call := func(op string, k int) {
			switch op {
			case "rpan":
				_, _ = b.RemovePipelineAndNodes(ctx, "T", "p")
			case "rmpipe":
				_ = b.RemovePipeline("T", "p")
			case "rmnode":
				_ = b.RemoveNode(ctx, "f")
				_ = b.RemoveNode(ctx, "s")
			case "regpipe":
				_ = b.RegisterPipeline(pipe)
			case "regpipe-deny":
				_ = b.RegisterPipeline(pipe, eventlogger.WithPipelineRegistrationPolicy(eventlogger.DenyOverwrite))
			case "regnode-deny":
				_ = b.RegisterNode("extra-deny", mk("extra-deny", eventlogger.NodeTypeFilter), eventlogger.WithNodeRegistrationPolicy(eventlogger.DenyOverwrite))
			case "regnode":
				_ = b.RegisterNode("f", mk("f", eventlogger.NodeTypeFilter), eventlogger.WithNodeRegistrationPolicy(eventlogger.AllowOverwrite))
			case "send":
				_, _ = b.Send(ctx, "T", &nodes.Lin{Path: fmt.Sprint(k)})
			case "reopen":
				_ = b.Reopen(ctx)
			case "thr":
				_ = b.SetSuccessThreshold("T", k%2)
				_ = b.SetSuccessThresholdSinks("T", 0)
			case "isany":
				_ = b.IsAnyPipelineRegistered("T")
			}
		}
		fail := func(what string) {
			gs := leak.Dump()
			bl := leak.BlockedInLib(gs)
			if len(bl) == 0 {
				fmt.Printf("\nINCONCLUSIVE-MARK watchdog: %s did not return within %s but no library goroutine is blocked\n", what, bound)
				t.Skip("inconclusive")
			}
			var sb strings.Builder
			for _, x := range bl {
				sb.WriteString(x.Text + "\n\n")
			}
			t.Fatalf("VIOLATION C12: %s did not return within %s (broker permanently locked)\ncase: goroutines=%d listedTimes=%d steps=%v mixes=%v\nblocked library goroutines:\n%s", what, bound, g, long, steps, mix, sb.String())
		}
		dupRemovals := 0
		for i, s := range steps {
			stepNo = i
			if !exec(ensure) {
				fail(fmt.Sprintf("re-creating the pipeline before step %d", i))
			}
			var ready atomic.Int32
			var gate atomic.Bool
			var wg sync.WaitGroup
			for k := 0; k < g; k++ {
				op := s
				if s == "mixed" {
					op = mix[i][k]
				}
				wg.Add(1)
				go func(op string, k int) {
					defer wg.Done()
					ready.Add(1)
					for spins := 0; !gate.Load(); spins++ {
						if spins > 2000 {
							runtime.Gosched()
						}
					}
					call(op, k)
				}(op, k)
			}
			for int(ready.Load()) < g {
				runtime.Gosched()
			}
			gate.Store(true)
			if !exec(wg.Wait) {
				fail(fmt.Sprintf("step %d (%s x%d simultaneously)", i, s, g))
			}
			if s == "rpan" || s == "rmpipe" || s == "rmnode" || strings.HasPrefix(s, "regpipe") || strings.HasPrefix(s, "regnode") {
				dupRemovals++
			}
		}
		if !exec(func() { _ = b.RegisterNode("probe", mk("probe", eventlogger.NodeTypeFilter)) }) {
			fail("the final probe call")
		}
		sec.Case(dupRemovals > 0, fmt.Sprintf("goroutines=%d listedTimes=%d steps=%s", g, long, strings.Join(steps, ",")), fmt.Sprintf("goroutines=%d", g), fmt.Sprintf("listedTimes=%d", long))
	})
}

const ruleDeep = "rapid: (a) a non-root node whose Process sends a nested event of its own type on the same Broker with the context it was given, to a drawn depth of 2-300; (b) 150-400 goroutines each sending an event whose non-root node re-sends once; (c) an unreferenced node whose Close sends an event is overwritten by RegisterNode, or removed; (d) the FIRST node of a pipeline re-sends an event of its own type while other goroutines register and remove a further pipeline of that type; all under the watchdog, followed by a writing probe call; oracle = every call returns within the bound; non-trivial = depth >= 130 or >= 150 concurrent re-sending Sends; distinct = configuration"

type nestPayload struct{ depth int }

// TestC12DeepNesting: nested and massively concurrent re-entrant Sends, and registry calls that make the broker
// close a node whose Close calls back.
func TestC12DeepNesting(t *testing.T) {
	sec := stats.Sec("deep_nesting", ruleDeep)
	rapid.Check(t, func(t *rapid.T) {
		mode := rapid.SampledFrom([]string{"nested", "nested", "concurrent", "overwrite-closer", "remove-closer", "root-resends-beside-writers"}).Draw(t, "mode")
		depth := rapid.SampledFrom([]int{2, 17, 127, 128, 129, 130, 200, 300}).Draw(t, "depth")
		callers := rapid.SampledFrom([]int{150, 260, 400}).Draw(t, "callers")
		d := fmt.Sprintf("mode=%s depth=%d callers=%d", mode, depth, callers)
		b, _ := eventlogger.NewBroker()
		w := &nodes.World{}
		ctx := context.Background()
		root := &nodes.N{W: w, Name: "root", ID: "root", T: eventlogger.NodeTypeFilter}
		fm := &nodes.N{W: w, Name: "fm", ID: "fm", T: eventlogger.NodeTypeFormatter}
		sk := &nodes.N{W: w, Name: "sk", ID: "sk", T: eventlogger.NodeTypeSink}
		if mode == "root-resends-beside-writers" {
			_ = b.RegisterNode("root", &resender{N: root, b: b, limit: 1, once: true})
		} else {
			_ = b.RegisterNode("root", root)
		}
		_ = b.RegisterNode("fm2", &nodes.N{W: w, Name: "fm2", ID: "fm2", T: eventlogger.NodeTypeFormatter})
		_ = b.RegisterNode("sk2", &nodes.N{W: w, Name: "sk2", ID: "sk2", T: eventlogger.NodeTypeSink})
		_ = b.RegisterNode("fm", &resender{N: fm, b: b, limit: depth, once: mode == "concurrent"})
		_ = b.RegisterNode("sk", sk)
		_ = b.RegisterPipeline(eventlogger.Pipeline{PipelineID: "p", EventType: "T", NodeIDs: []eventlogger.NodeID{"root", "fm", "sk"}})
		closer := &nodes.N{W: w, Name: "closer", ID: "closer", T: eventlogger.NodeTypeFilter}
		closer.OnClose = func(*nodes.N) { _, _ = b.Send(ctx, "T", &nestPayload{depth: 1 << 30}) }
		_ = b.RegisterNode("closer", closer)
		var f func()
		switch mode {
		case "nested":
			f = func() { _, _ = b.Send(ctx, "T", &nestPayload{}) }
		case "concurrent":
			f = func() {
				var wg sync.WaitGroup
				for i := 0; i < callers; i++ {
					wg.Add(1)
					go func() { defer wg.Done(); _, _ = b.Send(ctx, "T", &nestPayload{}) }()
				}
				wg.Wait()
			}
		case "overwrite-closer":
			f = func() {
				_ = b.RegisterNode("closer", &nodes.N{W: w, Name: "closer2", ID: "closer", T: eventlogger.NodeTypeFilter})
			}
		case "remove-closer":
			f = func() { _ = b.RemoveNode(ctx, "closer") }
		case "root-resends-beside-writers":
			// the FIRST node of the pipeline sends a nested event of its own type while other goroutines register and
			// remove a further pipeline of that type
			f = func() {
				var wg sync.WaitGroup
				for i := 0; i < 4; i++ {
					wg.Add(1)
					go func() {
						defer wg.Done()
						for k := 0; k < 60; k++ {
							_, _ = b.Send(ctx, "T", &nestPayload{})
						}
					}()
				}
				for i := 0; i < 2; i++ {
					wg.Add(1)
					go func(i int) {
						defer wg.Done()
						for k := 0; k < 150; k++ {
							_ = b.RegisterPipeline(eventlogger.Pipeline{PipelineID: "q", EventType: "T", NodeIDs: []eventlogger.NodeID{"fm2", "sk2"}})
							if i == 0 {
								_ = b.RemovePipeline("T", "q")
							} else {
								_, _ = b.RemovePipelineAndNodes(ctx, "T", "q-none")
							}
						}
					}(i)
				}
				wg.Wait()
			}
		}
		fail := func(what string) {
			gs := leak.BlockedInLib(leak.Dump())
			if len(gs) == 0 {
				fmt.Printf("\nINCONCLUSIVE-MARK watchdog: %s did not return within %s but no library goroutine is blocked\n", what, bound)
				t.Skip("inconclusive")
			}
			var sb strings.Builder
			for i, x := range gs {
				if i < 6 {
					sb.WriteString(x.Text + "\n\n")
				}
			}
			t.Fatalf("VIOLATION C12: %s did not return within %s (%d library goroutines blocked)\ncase: %s\nsome of them:\n%s", what, bound, len(gs), d, sb.String())
		}
		if !exec(f) {
			fail("the " + mode + " call")
		}
		if !exec(func() {
			_ = b.RegisterNode("probe", &nodes.N{W: w, Name: "probe", ID: "probe", T: eventlogger.NodeTypeFilter})
		}) {
			fail("the final probe call")
		}
		if !exec(func() { _, _ = b.Send(ctx, "T", &nestPayload{depth: 1 << 30}) }) {
			fail("a plain Send after the " + mode + " call")
		}
		sec.Case((mode == "nested" && depth >= 130) || mode == "concurrent" || mode == "root-resends-beside-writers", d, "mode="+mode)
	})
}

// resender is a formatter that, before passing the event on, sends a nested event of the same type.
type resender struct {
	*nodes.N
	b     *eventlogger.Broker
	limit int
	once  bool
}

func (r *resender) Process(ctx context.Context, e *eventlogger.Event) (*eventlogger.Event, error) {
	if p, ok := e.Payload.(*nestPayload); ok && p.depth < r.limit {
		next := p.depth + 1
		if r.once {
			next = 1 << 30
		}
		_, _ = r.b.Send(ctx, e.Type, &nestPayload{depth: next})
	}
	return r.N.Process(ctx, e)
}
