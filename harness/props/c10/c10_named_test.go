package c10

import (
	"context"
	"fmt"
	"reflect"
	"strings"
	"testing"

	"github.com/hashicorp/eventlogger"
	"github.com/hashicorp/eventlogger/filters/encrypt"
	"pgregory.net/rapid"
	"verif/harness/internal/encrun"
	"verif/harness/internal/stats"
)

// TestC10NamedTypes: payloads of hand-declared named struct types, among them distinct function-local types that
// share a name, processed in a drawn order by one or several filters (default operations).
func TestC10NamedTypes(t *testing.T) {
	sec := stats.Sec("named_types", "rapid: 2-8 payloads drawn from a catalogue of named struct types (a package-level type and three function-local types that all are called Rec, with different class tags, and three payloads of mutually recursive types whose protected leaves are reached again through a type without leaves of its own), processed in the drawn order by 1-2 filters with default operations; oracle = public fields are forwarded unchanged and the caller's payload is untouched; non-trivial = >=2 different types of the same name were processed; distinct = order of the cases")
	cases := encrun.NamedCases()
	rapid.Check(t, func(t *rapid.T) {
		order := rapid.SliceOfN(rapid.IntRange(0, len(cases)-1), 2, 8).Draw(t, "order")
		filters := []*encrypt.Filter{{Wrapper: encrun.Key.Wrapper()}, {Wrapper: encrun.Key.Wrapper()}}
		var names []string
		kinds := map[int]bool{}
		for i, ci := range order {
			c := cases[ci]
			kinds[ci] = true
			names = append(names, fmt.Sprint(ci))
			tag := fmt.Sprintf("e%d", i)
			p, classes := c.Build(tag)
			f := filters[rapid.IntRange(0, 1).Draw(t, fmt.Sprintf("filter%d", i))]
			// the filter node has a life between events: Reopen calls, and an event that is rejected (a bare string payload)
			switch rapid.IntRange(0, 6).Draw(t, fmt.Sprintf("between%d", i)) {
			case 0:
				_ = f.Reopen()
			case 1:
				_, _ = f.Process(context.Background(), &eventlogger.Event{Type: "t", Payload: "a bare string payload is rejected"})
			case 2:
				// a filter shared by several pipelines is handed the very same event once per pipeline; here an event it
				// rejects, twice: whatever it forwards for it has the input's dynamic type
				bare := &eventlogger.Event{Type: "t", Payload: "a bare string payload is rejected"}
				for k := 0; k < 2; k++ {
					if o, _ := f.Process(context.Background(), bare); o != nil {
						if _, isStr := o.Payload.(string); !isStr {
							t.Fatalf("VIOLATION C10: for an event whose payload is a string the filter forwarded an event with a payload of type %T (call %d with the same event)\ncase: order=%v", o.Payload, k+1, order)
						}
					}
				}
			}
			in := &eventlogger.Event{Type: "t", Payload: p}
			out, err := f.Process(context.Background(), in)
			if err == nil && out != nil && rapid.IntRange(0, 2).Draw(t, fmt.Sprintf("sameEventAgain%d", i)) == 0 {
				// the same event pointer once more (the next pipeline of a fan-out): judged like the first call
				out, err = f.Process(context.Background(), in)
			}
			if err != nil || out == nil {
				t.Fatalf("VIOLATION C10: Process failed on a well-formed payload of %s: %v\ncase: order=%v", c.Name, err, order)
			}
			if reflect.TypeOf(out.Payload) != reflect.TypeOf(p) {
				t.Fatalf("VIOLATION C10: the forwarded payload has type %T, the input %T (step %d)\ncase: order=%v", out.Payload, p, i, order)
			}
			got := c.Get(out.Payload)
			for field, class := range classes {
				plain := encrun.Value(tag, field)
				if class == "public" {
					if got[field] != plain {
						t.Fatalf("VIOLATION C10: public field %s of %s was changed to %q (step %d)\ncase: order=%v", field, c.Name, got[field], i, order)
					}
					continue
				}
				_ = class
			}
			for field, v := range c.Get(p) {
				if v != encrun.Value(tag, field) {
					t.Fatalf("VIOLATION C10: the caller's payload was modified: field %s of %s is now %q (step %d)\ncase: order=%v", field, c.Name, v, i, order)
				}
			}
		}
		sec.Case(len(kinds) >= 2, strings.Join(names, ","), fmt.Sprintf("types=%d", len(kinds)))
	})
}

// TestC10TagValues: public-tagged values of every shape, next to keys that are related as strings, are preserved.
func TestC10TagValues(t *testing.T) {
	sec := stats.Sec("tag_values", "rapid: a Taggable struct whose pointer tags name 3-5 keys of one map that are related as strings (prefixes of one another, equal up to case or surrounding white space, dotted), in drawn order; public-tagged values include the empty string, a blank, []string, []interface{} and nested maps; oracle = every public-classified value is forwarded deep-equal to the input, the map keeps its keys, the input is untouched; non-trivial = >= 2 related tagged keys; distinct = case descriptor")
	rapid.Check(t, func(t *rapid.T) {
		fs, desc, nt := encrun.TagValueCase(t)
		for _, fd := range fs {
			if fd.Prop == "C10" && !stats.Known(fd.Sig) {
				t.Fatalf("VIOLATION C10: %s [sig %s]\ncase: %s", fd.Msg, fd.Sig, desc)
			}
		}
		sec.Case(nt, desc)
	})
}
