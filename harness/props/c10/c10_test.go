// C10 — encrypt.Filter works on a private copy: the original event stays untouched.
package c10

import (
	"bytes"
	"context"
	"fmt"
	"reflect"
	"testing"

	"github.com/hashicorp/eventlogger"
	wrapping "github.com/hashicorp/go-kms-wrapping/v2"

	"pgregory.net/rapid"
	"verif/harness/internal/encrun"
	"verif/harness/internal/payload"
	"verif/harness/internal/stats"
)

func TestMain(m *testing.M) { stats.Main(m, "C10") }

const rule = "rapid: the C09 payload space (no injected wrapper faults); the payload is built twice from one description: after Process the processed copy's input must still equal the untouched twin (every string/bytes/scalar atom, container lengths, dynamic types), and the output must have the same dynamic type and shape with every public value, non-string value, container length and key preserved; all operations none / nil / zero payload => forwarded unchanged; non-trivial = a protected leaf is reached through a pointer, a map and a slice somewhere in the payload; distinct = payload+filter descriptor"

func TestC10PrivateCopy(t *testing.T) {
	sec := stats.Sec("private_copy", rule)
	maxDepth := stats.EnvInt("C10_DEPTH", 3)
	rapid.Check(t, func(t *rapid.T) {
		p := payload.Gen(t, maxDepth)
		c := encrun.GenFCfg(t, false)
		desc := p.String() + " " + c.String()
		r, herr := encrun.Run(p, c)
		if herr != nil {
			t.Fatalf("harness self-check failed (not a finding): %v\ncase: %s", herr, desc)
		}
		c09 := false
		for _, f := range r.Findings {
			if f.Prop != "C10" {
				c09 = true
				continue
			}
			if stats.Known(f.Sig) {
				continue
			}
			t.Fatalf("VIOLATION C10: %s [sig %s]\ncase: %s", f.Msg, f.Sig, desc)
		}
		_, kinds := encrun.Containers(r.Twin)
		hasPtr, hasMap, hasSlice := false, false, false
		for k := range kinds {
			for _, part := range splitUnder(k) {
				switch part {
				case "ptr", "iface":
					hasPtr = true
				case "map", "tmap":
					hasMap = true
				case "slice":
					hasSlice = true
				}
			}
		}
		cl := []string{"top=" + p.Top}
		if r.Err != nil {
			cl = append(cl, "process_error")
		}
		if r.AllNone {
			cl = append(cl, "all_operations_none")
		}
		if c09 {
			cl = append(cl, "c09_finding_seen")
		}
		sec.Case(r.Err == nil && hasPtr && hasMap && hasSlice, desc, cl...)
	})
}

func splitUnder(s string) []string {
	var out []string
	cur := ""
	for _, ch := range s {
		if ch == '>' {
			out = append(out, cur)
			cur = ""
			continue
		}
		cur += string(ch)
	}
	if cur != "" {
		out = append(out, cur)
	}
	return out
}

// ---------------------------------------------------------------------------
// "with all operations overridden to none ... the event is forwarded unchanged" also holds for payloads
// that implement the control interfaces (RotateWrapper, EventWrapperInfo).

type rotP struct {
	w          wrapping.Wrapper
	salt, info []byte
	Secret     string `class:"secret"`
}

func (r *rotP) Wrapper() wrapping.Wrapper { return r.w }
func (r *rotP) HmacSalt() []byte          { return r.salt }
func (r *rotP) HmacInfo() []byte          { return r.info }

type ewiP struct {
	id   string
	A    string `class:"sensitive"`
	salt []byte
	info []byte
}

func (e *ewiP) EventId() string  { return e.id }
func (e *ewiP) HmacSalt() []byte { return e.salt }
func (e *ewiP) HmacInfo() []byte { return e.info }

func TestC10AllNoneSpecial(t *testing.T) {
	sec := stats.Sec("all_none_special", "rapid: every operation overridden to none x payloads implementing RotateWrapper (any subset of wrapper/salt/info) or EventWrapperInfo (ids incl. \"\"), filter with or without a wrapper; oracle = the event is forwarded without error and with an equal payload of the same type (a rotation payload may instead be consumed, which C09 demands), and a filter that forwarded it kept its own keys; non-trivial = every case; distinct = case descriptor")
	rapid.Check(t, func(t *rapid.T) {
		c := encrun.FCfg{Overrides: map[string]string{"public": "", "sensitive": "", "secret": ""}, Wrapper: rapid.SampledFrom([]string{"ok", "absent"}).Draw(t, "wrapper"), Salt: rapid.Bool().Draw(t, "salt")}
		f := c.Filter()
		w0, s0 := f.Wrapper, string(f.HmacSalt)
		var payload interface{}
		desc := c.String()
		if rapid.Bool().Draw(t, "rotation") {
			r := &rotP{Secret: "s"}
			if rapid.Bool().Draw(t, "w") {
				r.w = encrun.Key.Wrapper()
			}
			if rapid.Bool().Draw(t, "s") {
				r.salt = []byte("s2")
			}
			payload = r
			desc += fmt.Sprintf(" rotation-payload{wrapper=%v salt=%v}", r.w != nil, r.salt != nil)
		} else {
			e := &ewiP{id: rapid.SampledFrom([]string{"ev-1", ""}).Draw(t, "id"), A: "a"}
			payload = e
			desc += fmt.Sprintf(" event-wrapper-payload{id=%q}", e.id)
		}
		in := &eventlogger.Event{Type: "t", Payload: payload}
		out, err := f.Process(context.Background(), in)
		_, isRotation := payload.(*rotP)
		consumed := out == nil && err == nil
		if isRotation && consumed {
			// C09 says rotation payloads are consumed, C10 says an all-none filter forwards unchanged: for a rotation
			// payload on an all-none filter the two statements leave both behaviours open
			sec.Case(true, desc, "all_none_special", "rotation_payload_consumed_by_all_none_filter")
			return
		}
		if err != nil || out == nil {
			t.Fatalf("VIOLATION C10: with every operation overridden to none the event must be forwarded unchanged, got (event=%v, err=%v)\ncase: %s", out != nil, err, desc)
		}
		same := reflect.TypeOf(out.Payload) == reflect.TypeOf(payload)
		if same {
			switch p := out.Payload.(type) { // exported state only: a legitimate deep copy does not carry unexported fields
			case *rotP:
				same = p != nil && p.Secret == "s"
			case *ewiP:
				same = p != nil && p.A == "a"
			}
		}
		if out.Type != in.Type || !same {
			t.Fatalf("VIOLATION C10: with every operation overridden to none the event must be forwarded unchanged, the forwarded payload differs\ncase: %s", desc)
		}
		if f.Wrapper != w0 || string(f.HmacSalt) != s0 {
			t.Fatalf("VIOLATION C10: a filter that forwarded the rotation payload unchanged nevertheless changed its own keys\ncase: %s", desc)
		}
		sec.Case(true, desc, "all_none_special")
	})
}

// TestC10ControlPayloadsUntouched: rotation payloads and per-event wrapper payloads are events like any other:
// Process must not modify what it was given (the same event is handed to every pipeline of its type).
func TestC10ControlPayloadsUntouched(t *testing.T) {
	sec := stats.Sec("control_payloads_untouched", "rapid: filters with generated overrides (not all none) x payloads implementing RotateWrapper (wrapper / salt / info present or not, non-empty byte slices) or EventWrapperInfo (per-event salt / info); oracle = after Process the payload the caller handed in still holds exactly its bytes (salt, info, tagged fields), whether the event was consumed or forwarded; non-trivial = a rotation payload with salt and info; distinct = case descriptor")
	rapid.Check(t, func(t *rapid.T) {
		c := encrun.GenFCfg(t, false)
		if c.PCfg().AllNone() {
			c.Overrides = nil
		}
		f := c.Filter()
		desc := c.String()
		rot := rapid.Bool().Draw(t, "rotation")
		salt := rapid.SliceOfN(rapid.Byte(), 0, 12).Draw(t, "salt")
		info := rapid.SliceOfN(rapid.Byte(), 0, 12).Draw(t, "info")
		if rapid.IntRange(0, 3).Draw(t, "nilSalt") == 0 {
			salt = nil
		}
		if rapid.IntRange(0, 3).Draw(t, "nilInfo") == 0 {
			info = nil
		}
		saltCopy, infoCopy := append([]byte(nil), salt...), append([]byte(nil), info...)
		var payload interface{}
		var check func() string
		if rot {
			r := &rotP{Secret: "s", salt: salt, info: info}
			if rapid.Bool().Draw(t, "w") {
				r.w = encrun.Key.Wrapper()
			}
			payload = r
			desc += fmt.Sprintf(" rotation-payload{wrapper=%v salt=%dB info=%dB}", r.w != nil, len(salt), len(info))
			check = func() string {
				switch {
				case !bytes.Equal(r.salt, saltCopy):
					return fmt.Sprintf("its salt was %x, now %x", saltCopy, r.salt)
				case !bytes.Equal(r.info, infoCopy):
					return fmt.Sprintf("its info was %x, now %x", infoCopy, r.info)
				case r.Secret != "s":
					return fmt.Sprintf("its field Secret is now %q", r.Secret)
				}
				return ""
			}
		} else {
			e := &ewiP{id: "ev-1", A: "a", salt: salt, info: info}
			payload = e
			desc += fmt.Sprintf(" event-wrapper-payload{salt=%dB info=%dB}", len(salt), len(info))
			check = func() string {
				switch {
				case !bytes.Equal(e.salt, saltCopy):
					return fmt.Sprintf("its salt was %x, now %x", saltCopy, e.salt)
				case !bytes.Equal(e.info, infoCopy):
					return fmt.Sprintf("its info was %x, now %x", infoCopy, e.info)
				case e.A != "a":
					return fmt.Sprintf("its field A is now %q", e.A)
				}
				return ""
			}
		}
		in := &eventlogger.Event{Type: "t", Payload: payload}
		_, _ = f.Process(context.Background(), in)
		if msg := check(); msg != "" {
			t.Fatalf("VIOLATION C10: Process modified the payload it was given: %s\ncase: %s", msg, desc)
		}
		if in.Payload != payload || in.Type != "t" {
			t.Fatalf("VIOLATION C10: Process modified the event it was given\ncase: %s", desc)
		}
		sec.Case(rot && len(salt) > 0 && len(info) > 0, desc, fmt.Sprintf("rotation=%v", rot))
	})
}
