// C10 — encrypt.Filter works on a private copy: the original event stays untouched.
package c10

import (
	"testing"

	"pgregory.net/rapid"
	"verif/harness/internal/encrun"
	"verif/harness/internal/payload"
	"verif/harness/internal/stats"
)

func TestMain(m *testing.M) { stats.Main(m, "C10") }

const rule = "rapid: the C09 payload space (no injected wrapper faults); the payload is built twice from one description: after Process the processed copy's input must still equal the untouched twin (every string/bytes/scalar atom, container lengths, dynamic types), and the output must have the same dynamic type and shape with every public value, non-string value, container length and key preserved; all operations none / nil / zero payload => forwarded unchanged; non-trivial = a protected leaf is reached through a pointer, a map and a slice somewhere in the payload; distinct = payload+filter descriptor"

func TestC10PrivateCopy(t *testing.T) {
	sec := stats.Sec("private_copy", rule)
	maxDepth := stats.EnvInt("C10_DEPTH", 3)
	rapid.Check(t, func(t *rapid.T) {
		p := payload.Gen(t, maxDepth)
		c := encrun.GenFCfg(t, false)
		desc := p.String() + " " + c.String()
		r, herr := encrun.Run(p, c)
		if herr != nil {
			t.Fatalf("harness self-check failed (not a finding): %v\ncase: %s", herr, desc)
		}
		c09 := false
		for _, f := range r.Findings {
			if f.Prop != "C10" {
				c09 = true
				continue
			}
			if stats.Known(f.Sig) {
				continue
			}
			t.Fatalf("VIOLATION C10: %s [sig %s]\ncase: %s", f.Msg, f.Sig, desc)
		}
		_, kinds := encrun.Containers(r.Twin)
		hasPtr, hasMap, hasSlice := false, false, false
		for k := range kinds {
			for _, part := range splitUnder(k) {
				switch part {
				case "ptr", "iface":
					hasPtr = true
				case "map", "tmap":
					hasMap = true
				case "slice":
					hasSlice = true
				}
			}
		}
		cl := []string{"top=" + p.Top}
		if r.Err != nil {
			cl = append(cl, "process_error")
		}
		if r.AllNone {
			cl = append(cl, "all_operations_none")
		}
		if c09 {
			cl = append(cl, "c09_finding_seen")
		}
		sec.Case(r.Err == nil && hasPtr && hasMap && hasSlice, desc, cl...)
	})
}

func splitUnder(s string) []string {
	var out []string
	cur := ""
	for _, ch := range s {
		if ch == '>' {
			out = append(out, cur)
			cur = ""
			continue
		}
		cur += string(ch)
	}
	if cur != "" {
		out = append(out, cur)
	}
	return out
}
